// C10 / C03 harness (family `api`): Circuit setters, Circuit::placeGlobal/legalize/placeDetailed with scripted
// callbacks, and the three export functions, from /repo's working tree.
//   api gen bz SEED COUNT     busy-protocol scenarios (throw index -1; checks/c10.py derives one run per callback index)
//   api gen bo SEED COUNT     busy-protocol scenarios with movable cells of orientation INVALID / UNKNOWN, mostly with a failing legalization
//   api gen ep SEED COUNT     scenarios through EVERY public placement entry point of Circuit: place(effort), placeGlobal / legalize / placeDetailed
//                             (effort) and (params[, callback]), ending by return or by an exception at every possible point (see runEP)
//   api gen ex SEED COUNT     export-function cases (random internal vectors)
//   api gen fr SEED COUNT     stage-run compositions for the dynamic frame check
//   api run < cases
//
// BZ stage hascb pvar effort throwk smode pmode seed <rows cells> <nets>
//    pvar: 0 valid (steps capped), 1..6 a parameter set that check() rejects, 7 library defaults, 8..17 values at the boundary of what check()
//          accepts (nbPasses 0, maxNbSteps 1, windows of one row / zero cells, rough legalization 0 steps, tolerances / blendings / noise at both ends)
//    -> "<trace> # <obs> # <ninv> <cls>"
//    trace (input of the model): <state dump> nitems item*
//      item   = setter: kind args   (kinds 1..14, see putOp)
//             | call  : 15 stage hascb params_ok leg_ok throwk ninv inv* cls n (x y o)*n
//      inv    = step n (x y o)*n nops item*     PlacementStep, placement seen on entry of the callback, operations it issued
//    obs (what the implementation did, same walk as the model's prediction):
//      "S h1 h2" initial state; per operation "o res chk h1 h2"; per top-level call "E cls chk h1 h2"; "F <dump>" final state
//      res: 0 accepted 1 refused(in use) 2 rejected(arguments) 9 other exception; nested call: 1000+cls
//      cls: 0 returned 1 params 2 legalizer 3 internal 4 export 6 updating 100+k callback threw at invocation k
//      chk: Circuit::check() passes
// EX kind <rows cells> m entries   kind 0 global (x2 y2 per cell, half units), 1 legalizer (placed x y o), 2 detailed (index x y o)
//    -> "<state dump before> # <state dump after> <threw>"
// FR <rows cells> <nets> nruns (stage hascb pvar effort throwk)*
//    -> per run " R stage cls ninv | <dump before> | <dump at callback>* | <dump after>"
#include <algorithm>
#include <array>
#include <cassert>
#include <chrono>
#include <cmath>
#include <functional>
#include <future>
#include <iomanip>
#include <limits>
#include <map>
#include <memory>
#include <numeric>
#include <optional>
#include <queue>
#include <random>
#include <set>
#include <stdexcept>
#include <tuple>
#include <unordered_map>
#include <unordered_set>
#include <utility>
#include "vh.hpp"
#define private public
#define protected public
#include "coloquinte.hpp"
#include "place_global/place_global.hpp"
#include "place_detailed/legalizer.hpp"
#include "place_detailed/detailed_placement.hpp"
#undef private
#undef protected
#include "cgen.hpp"

typedef std::vector<long long> IV;

static void dumpState(const Circuit &c, IV &v) {
  v.push_back(c.netLimits_.size()); for (int x : c.netLimits_) v.push_back(x);
  v.push_back(c.netWeights_.size()); for (float x : c.netWeights_) v.push_back(llround(x * 2.0));
  v.push_back(c.pinCells_.size()); for (int x : c.pinCells_) v.push_back(x);
  v.push_back(c.pinXOffsets_.size()); for (int x : c.pinXOffsets_) v.push_back(x);
  v.push_back(c.pinYOffsets_.size()); for (int x : c.pinYOffsets_) v.push_back(x);
  v.push_back(c.cellWidth_.size()); for (int x : c.cellWidth_) v.push_back(x);
  v.push_back(c.cellHeight_.size()); for (int x : c.cellHeight_) v.push_back(x);
  v.push_back(c.cellIsFixed_.size()); for (bool x : c.cellIsFixed_) v.push_back(x);
  v.push_back(c.cellIsObstruction_.size()); for (bool x : c.cellIsObstruction_) v.push_back(x);
  v.push_back(c.cellRowPolarity_.size()); for (auto x : c.cellRowPolarity_) v.push_back(polInt(x));
  v.push_back(c.cellX_.size()); for (int x : c.cellX_) v.push_back(x);
  v.push_back(c.cellY_.size()); for (int x : c.cellY_) v.push_back(x);
  v.push_back(c.cellOrientation_.size()); for (auto x : c.cellOrientation_) v.push_back((int)x);
  v.push_back(c.rows_.size()); for (auto &r : c.rows_) { v.push_back(r.minX); v.push_back(r.maxX); v.push_back(r.minY); v.push_back(r.maxY); v.push_back((int)r.orientation); }
  v.push_back(c.isInUse_); v.push_back(c.hasCellSizeUpdate_); v.push_back(c.hasNetUpdate_);
}
static std::string showIV(const IV &v) { std::string s; char b[32]; for (size_t i = 0; i < v.size(); ++i) { snprintf(b, sizeof b, i ? " %lld" : "%lld", v[i]); s += b; } return s; }
static std::string dumpStr(const Circuit &c) { IV v; dumpState(c, v); return showIV(v); }
static std::string hashStr(const Circuit &c) {
  IV v; dumpState(c, v); const long long P1 = 2147483647LL, P2 = 2147483629LL; long long h1 = 7, h2 = 11;
  for (long long x : v) { long long a = ((x % P1) + P1) % P1, b = ((x % P2) + P2) % P2; h1 = (h1 * 1000003LL + a) % P1; h2 = (h2 * 999983LL + b) % P2; }
  char b[64]; snprintf(b, sizeof b, "%lld %lld", h1, h2); return b;
}
static int checkOk(const Circuit &c) { try { c.check(); return 1; } catch (std::exception &) { return 0; } }
static std::string placementStr(const Circuit &c) {
  std::ostringstream s; s << c.cellX_.size();
  for (size_t i = 0; i < c.cellX_.size(); ++i) s << " " << c.cellX_[i] << " " << c.cellY_[i] << " " << (int)c.cellOrientation_[i];
  return s.str();
}

struct CbThrow { int k; };   // what the scripted callback throws: deliberately not a std::exception

// ---------------------------------------------------------------- parameters
static ColoquinteParameters mkParams(int pvar, int effort) {
  ColoquinteParameters p(effort);
  if (pvar == 7) return p;                                                            // the library's own defaults, uncapped
  p.global.nbInitialSteps = effort % 2; p.global.maxNbSteps = 2 + effort % 3;        // few callbacks: every index is thrown at
  p.detailed.nbPasses = std::min(p.detailed.nbPasses, 1 + effort % 2);
  if (effort % 4 == 0) p.detailed.reorderingMaxNbCells = 3;
  switch (pvar) {
    case 1: p.detailed.nbPasses = -1; break;
    case 2: p.legalization.orderingY = 1.0; break;
    case 3: p.global.maxNbSteps = -1; break;
    case 4: p.global.gapTolerance = 2.0; break;
    case 5: p.detailed.shiftNbRows = 0; break;
    case 6: p.global.roughLegalization.binSize = 0.5f; break;
    // 8..17: values at the boundary of what ColoquinteParameters::check() accepts (all three stages take the whole object)
    case 8: p.detailed.nbPasses = 0; break;                                                   // no optimisation pass at all
    case 9: p.global.maxNbSteps = 1; p.global.nbInitialSteps = 0; break;                     // minimal number of steps
    case 10: p.detailed.shiftNbRows = 1; p.detailed.reorderingNbRows = 1; p.detailed.localSearchNbRows = 0; p.detailed.localSearchNbNeighbours = 0;
             p.detailed.shiftMaxNbCells = 0; p.detailed.reorderingMaxNbCells = 0; break;     // windows of one row / zero cells
    case 11: p.detailed.nbPasses = 1; p.detailed.shiftNbRows = 1; p.detailed.reorderingNbRows = 1; p.detailed.shiftMaxNbCells = 1; p.detailed.reorderingMaxNbCells = 1;
             p.detailed.localSearchNbRows = 1; p.detailed.localSearchNbNeighbours = 1; break;
    case 12: { auto &r = p.global.roughLegalization; r.nbSteps = 0; r.binSize = 1.0; r.lineReoptSize = 2; r.lineReoptOverlap = 1; r.diagReoptSize = 1; r.diagReoptOverlap = 1;
               r.squareReoptSize = 1; r.squareReoptOverlap = 1; r.quadraticPenalty = 0.0; r.targetBlending = -0.1; p.global.nbStepsBeforeRoughLegalization = 1; break; }
    case 13: { auto &r = p.global.roughLegalization; r.binSize = 25.0; r.lineReoptSize = 1; r.diagReoptSize = 1; r.squareReoptSize = 1; r.unidimensionalTransport = true;
               r.costModel = LegalizationModel::L1; r.quadraticPenalty = 1.0; r.targetBlending = 0.9f; break; }
    case 14: p.global.gapTolerance = 0.0; p.global.distanceTolerance = 0.0; p.global.exportBlending = -0.5; p.global.noise = 0.0; p.global.penaltyUpdateBackoff = 1.0;
             p.global.penalty.cutoffDistance = 1.0e-6; p.global.penalty.cutoffDistanceUpdateFactor = 0.8; p.global.penalty.areaExponent = 0.49; p.global.penalty.targetBlending = 0.1f;
             p.global.continuousModel.approximationDistance = 1.0e-6; p.global.continuousModel.approximationDistanceUpdateFactor = 0.8;
             p.global.continuousModel.maxNbConjugateGradientSteps = 1; p.global.continuousModel.conjugateGradientErrorTolerance = 1.0; break;
    case 15: p.global.gapTolerance = 1.0; p.global.exportBlending = 1.5; p.global.noise = 2.0; p.global.penalty.cutoffDistanceUpdateFactor = 1.2; p.global.penalty.areaExponent = 1.01;
             p.global.penalty.targetBlending = 1.1f; p.global.continuousModel.approximationDistance = 1.0e3; p.global.continuousModel.approximationDistanceUpdateFactor = 1.2;
             p.global.continuousModel.conjugateGradientErrorTolerance = 1.0e-8; break;
    case 16: p.legalization.orderingWidth = 2.0; p.legalization.orderingY = 0.2; p.detailed.nbPasses = 0; break;
    case 17: p.legalization.orderingWidth = -1.0; p.legalization.orderingY = -0.2; p.global.maxNbSteps = 1; p.global.nbInitialSteps = 0; p.global.noise = 0.0; break;
    default: break;
  }
  return p;
}
static const int kPvarBoundaryLo = 8, kPvarBoundaryHi = 17;

// ---------------------------------------------------------------- operations
struct Op {
  int kind = 0; IV a, b, c, d, e; long long w = 0;          // vectors in the order of the setter's arguments
  int stage = 0, pvar = 0, effort = 1;                       // kind 15
};
static void putVec(std::ostringstream &s, const IV &v) { s << " " << v.size(); for (auto x : v) s << " " << x; }
static void putOp(std::ostringstream &s, const Op &o) {
  s << " " << o.kind;
  switch (o.kind) {
    case 1: putVec(s, o.a); putVec(s, o.b); putVec(s, o.c); s << " " << o.w; break;                 // addNet cells xo yo w2
    case 2: putVec(s, o.a); putVec(s, o.b); putVec(s, o.c); putVec(s, o.d); putVec(s, o.e); break;  // setNets limits cells xo yo w2
    case 3: s << " " << o.a.size() / 5; for (auto x : o.a) s << " " << x; break;                   // setRows (minX maxX minY maxY orient)*
    case 4: for (auto x : o.a) s << " " << x; break;                                                 // setupRows minX maxX minY maxY rh alt init
    case 14: s << " " << o.a.size() / 3; for (auto x : o.a) s << " " << x; break;                  // setSolution (x y o)*
    default: putVec(s, o.a); break;                                                                   // 5..13: one vector
  }
}
static std::vector<int> toInt(const IV &v) { return std::vector<int>(v.begin(), v.end()); }
static std::vector<bool> toBool(const IV &v) { std::vector<bool> r; for (auto x : v) r.push_back(x != 0); return r; }

static int classifySetter(const std::exception &e) {
  std::string m = e.what();
  if (m == "This operation is not allowed when the circuit is being placed") return 1;
  if (m.rfind("Number of elements is not the same", 0) == 0 || m.rfind("Number of weights is not the same", 0) == 0 ||
      m == "Inconsistent number of pins for the net" || m == "Row height for row creation must be positive" ||
      m == "Net pin references a cell that does not exist" || m == "Net limits should start with 0" ||
      m == "Net limits should be sorted" || m == "Inconsistent number of pins for the nets") return 2;
  return 9;
}
static int execSetter(Circuit &c, const Op &o) {
  try {
    switch (o.kind) {
      case 1: c.addNet(toInt(o.a), toInt(o.b), toInt(o.c), o.w * 0.5f); break;
      case 2: { std::vector<float> w; for (auto x : o.e) w.push_back(x * 0.5f); c.setNets(toInt(o.a), toInt(o.b), toInt(o.c), toInt(o.d), w); break; }
      case 3: { std::vector<Row> r; for (size_t i = 0; i + 4 < o.a.size(); i += 5) r.emplace_back((int)o.a[i], (int)o.a[i + 1], (int)o.a[i + 2], (int)o.a[i + 3], (CellOrientation)o.a[i + 4]); c.setRows(r); break; }
      case 4: c.setupRows(Rectangle((int)o.a[0], (int)o.a[1], (int)o.a[2], (int)o.a[3]), (int)o.a[4], o.a[5] != 0, o.a[6] != 0); break;
      case 5: c.setCellIsFixed(toBool(o.a)); break;
      case 6: c.setCellIsObstruction(toBool(o.a)); break;
      case 7: { std::vector<CellRowPolarity> p; for (auto x : o.a) p.push_back(kPol[x]); c.setCellRowPolarity(p); break; }
      case 8: c.setCellX(toInt(o.a)); break;
      case 9: c.setCellY(toInt(o.a)); break;
      case 10: { std::vector<CellOrientation> p; for (auto x : o.a) p.push_back((CellOrientation)x); c.setCellOrientation(p); break; }
      case 11: c.setCellWidth(toInt(o.a)); break;
      case 12: c.setCellHeight(toInt(o.a)); break;
      case 13: { std::vector<float> w; for (auto x : o.a) w.push_back(x * 0.5f); c.setNetWeights(w); break; }
      case 14: { PlacementSolution s; for (size_t i = 0; i + 2 < o.a.size(); i += 3) s.emplace_back((int)o.a[i], (int)o.a[i + 1], (CellOrientation)o.a[i + 2]); c.setSolution(s); break; }
      default: return 9;
    }
    return 0;
  } catch (std::exception &e) { return classifySetter(e); }
}

static IV cur(const std::vector<int> &v) { return IV(v.begin(), v.end()); }
// the operations issued at one point (inside a callback: post = false; after the call: post = true)
static std::vector<Op> genOps(int mode, const Circuit &c, SplitMix &g, bool post) {
  std::vector<Op> ops; int n = c.nbCells();
  auto rnd01 = [&](int len) { IV v; for (int i = 0; i < len; ++i) v.push_back(g.coin(40)); return v; };
  if (mode & 1) {     // the seven guarded setters, with acceptable and with unacceptable arguments
    { Op o; o.kind = 1; int d = (int)g.uni(1, 3); for (int j = 0; j < d; ++j) { o.a.push_back(n ? g.uni(0, n - 1) : 0); o.b.push_back(g.uni(-1, 3)); o.c.push_back(g.uni(-1, 3)); } o.w = g.uni(1, 4); if (n) ops.push_back(o); }
    { Op o; o.kind = 1; o.a = {0, 0}; o.b = {1}; o.c = {1, 1}; o.w = 2; ops.push_back(o); }                       // pin count mismatch
    { Op o; o.kind = 1; o.w = 2; ops.push_back(o); }                                                               // empty net: accepted, no effect
    { Op o; o.kind = 1; o.a = {g.coin(50) ? (long long)n : -1LL}; o.b = {0}; o.c = {0}; o.w = 2; ops.push_back(o); }    // pin on a cell that does not exist
    { Op o; o.kind = 2; int nn = (int)g.uni(0, 2); o.a.push_back(0); for (int k = 0; k < nn && n; ++k) { int d = (int)g.uni(1, 3); for (int j = 0; j < d; ++j) { o.b.push_back(g.uni(0, n - 1)); o.c.push_back(g.uni(0, 2)); o.d.push_back(g.uni(0, 2)); } o.a.push_back(o.b.size()); }
      if (g.coin(50)) for (size_t k = 0; k + 1 < o.a.size(); ++k) o.e.push_back(g.uni(1, 4)); ops.push_back(o); }
    { Op o; o.kind = 2; int v = (int)g.uni(0, 4);                                                                   // setNets with unacceptable arguments
      if (v == 0) { o.a = {1, 1}; o.b = {0}; o.c = {0}; o.d = {0}; }                     // limits do not start with 0
      else if (v == 1) { o.a = {0, 2, 1}; o.b = {0}; o.c = {0}; o.d = {0}; }             // unsorted
      else if (v == 2) { o.a = {0, 2}; o.b = {0, 0}; o.c = {0}; o.d = {0, 0}; }          // pin vectors of different sizes
      else if (v == 3) { o.a = {0, 1}; o.b = {0}; o.c = {0}; o.d = {0}; o.e = {2, 2}; }  // too many weights
      else { o.a = {0, 1}; o.b = {(long long)n}; o.c = {0}; o.d = {0}; }                 // pin on a cell that does not exist
      if (n) ops.push_back(o); }
    { Op o; o.kind = 3; int keep = (int)g.uni(0, 2); for (auto &r : c.rows()) { if (keep == 0) break; for (long long v : {(long long)r.minX, (long long)r.maxX, (long long)r.minY, (long long)r.maxY, (long long)(int)r.orientation}) o.a.push_back(v); }
      if (keep == 2) for (long long v : {g.uni(-5, 5), g.uni(6, 30), 100LL, 102LL, g.uni(0, 7)}) o.a.push_back(v);
      ops.push_back(o); }
    { Op o; o.kind = 4; long long y0 = g.uni(-6, 6); o.a = {g.uni(-10, 0), g.uni(5, 40), y0, y0 + g.uni(-2, 14), g.uni(1, 4), g.uni(0, 1), g.uni(0, 1)}; ops.push_back(o); }
    { Op o; o.kind = 4; o.a = {0, 10, 0, 10, g.uni(-2, 0), 1, 1}; ops.push_back(o); }                             // non-positive row height
    { Op o; o.kind = 5; o.a = rnd01(n); ops.push_back(o); }
    { Op o; o.kind = 5; o.a = rnd01(n + 1); ops.push_back(o); }                                                    // wrong size
    { Op o; o.kind = 6; o.a = rnd01(n); ops.push_back(o); }
    { Op o; o.kind = 6; o.a = rnd01(n > 0 ? n - 1 : 1); ops.push_back(o); }
    { Op o; o.kind = 7; for (int i = 0; i < n; ++i) o.a.push_back(g.coin(70) ? polInt(c.cellRowPolarity()[i]) : g.uni(0, 4)); ops.push_back(o); }
    { Op o; o.kind = 7; o.a = IV(n + 2, 0); ops.push_back(o); }
  }
  if (mode & 2) {     // unguarded placement setters: current values inside a callback, moved values afterwards
    IV x = cur(c.cellX()), y = cur(c.cellY()), ori; for (auto v : c.cellOrientation()) ori.push_back((int)v);
    if (post) for (int i = 0; i < n; ++i) { x[i] += g.uni(-2, 2); y[i] += g.uni(-2, 2); }
    for (auto *v : {&x, &y}) for (auto &e : *v) e = std::max<long long>(std::numeric_limits<int>::min(), std::min<long long>(std::numeric_limits<int>::max(), e));   // setters take int
    { Op o; o.kind = 8; o.a = x; ops.push_back(o); }
    { Op o; o.kind = 9; o.a = y; ops.push_back(o); }
    { Op o; o.kind = 9; o.a = IV(n + 1, 3); ops.push_back(o); }
    { Op o; o.kind = 10; o.a = ori; ops.push_back(o); }
    { Op o; o.kind = 14; for (int i = 0; i < n; ++i) { o.a.push_back(x[i]); o.a.push_back(y[i]); o.a.push_back(ori[i]); } ops.push_back(o); }
    { Op o; o.kind = 14; o.a = {1, 2, 0}; if (n != 1) ops.push_back(o); }
  }
  if (mode & 4) {     // size setters: they set hasCellSizeUpdate_
    { Op o; o.kind = g.coin(50) ? 11 : 12; o.a = cur(o.kind == 11 ? c.cellWidth() : c.cellHeight()); ops.push_back(o); }
    { Op o; o.kind = 11; o.a = IV(n + 1, 1); ops.push_back(o); }
  }
  if (mode & 16) {    // net weights: sets hasNetUpdate_
    { Op o; o.kind = 13; for (int k = 0; k < c.nbNets(); ++k) o.a.push_back(g.uni(1, 6)); ops.push_back(o); }
    { Op o; o.kind = 13; o.a = IV(c.nbNets() + 1, 2); ops.push_back(o); }
  }
  if (mode & 8) {     // one more placement call (nested when issued by a callback)
    Op o; o.kind = 15; o.stage = (mode & 32) ? 2 : 1; o.pvar = (mode & 64) ? 2 : g.coin(50) ? 0 : (int)g.uni(kPvarBoundaryLo, kPvarBoundaryHi); o.effort = 1; ops.push_back(o);
    if (mode & 1) { Op q; q.kind = 3; ops.push_back(q); Op r; r.kind = 5; r.a = rnd01(n); ops.push_back(r); }    // setters again after the nested call
  }
  return ops;
}

// ---------------------------------------------------------------- calls
struct CallResult { int cls = 0, ninv = 0; };
static void execOp(Circuit &c, const Op &o, SplitMix &g, std::ostringstream &tr, std::ostringstream &ob, int depth);

static CallResult doCall(Circuit &c, int stage, int hascb, int pvar, int effort, int throwk, int smode, SplitMix &g,
                         std::ostringstream &tr, std::ostringstream &ob, int depth,
                         const std::function<void(int)> &onCallback = nullptr) {
  ColoquinteParameters p = mkParams(pvar, effort);
  int paramsOk = 1; std::string pmsg;
  try { p.check(); } catch (std::exception &e) { paramsOk = 0; pmsg = e.what(); }
  int legOk = 1;
  if (stage != 0 && paramsOk) { Circuit cp = c; try { cp.legalize(p); } catch (std::exception &) { legOk = 0; } }
  std::ostringstream inner; CallResult res;
  PlacementCallback cb = [&](PlacementStep step) {
    int k = res.ninv++;
    inner << " " << (int)step << " " << placementStr(c);
    if (onCallback) onCallback(k);
    std::vector<Op> ops = depth == 0 ? genOps(smode, c, g, false) : std::vector<Op>();
    inner << " " << ops.size();
    for (auto &o : ops) execOp(c, o, g, inner, ob, depth + 1);
    if (k == throwk) throw CbThrow{k};
  };
  std::optional<PlacementCallback> ocb; if (hascb) ocb = cb;
  try {
    if (stage == 0) c.placeGlobal(p, ocb); else if (stage == 1) c.legalize(p, ocb); else c.placeDetailed(p, ocb);
    res.cls = 0;
  } catch (CbThrow &e) { res.cls = 100 + e.k; }
  catch (std::exception &e) {
    std::string m = e.what();
    if (!paramsOk && m == pmsg) res.cls = 1;
    else if (m.rfind("Updating the size of circuit elements is not supported", 0) == 0) res.cls = 6;
    else if (m == "Circuit does not match legalizer for export") res.cls = 4;
    else if (stage != 0 && !legOk) res.cls = 2;
    else res.cls = 3;
  }
  tr << " 15 " << stage << " " << hascb << " " << paramsOk << " " << legOk << " " << throwk << " " << res.ninv << inner.str()
     << " " << res.cls << " " << placementStr(c);
  return res;
}

static void execOp(Circuit &c, const Op &o, SplitMix &g, std::ostringstream &tr, std::ostringstream &ob, int depth) {
  if (o.kind == 15) {
    CallResult r = doCall(c, o.stage, 0, o.pvar, o.effort, -1, 0, g, tr, ob, depth);
    if (depth == 0) ob << " E " << r.cls; else ob << " o " << 1000 + r.cls;
    ob << " " << checkOk(c) << " " << hashStr(c);
    return;
  }
  putOp(tr, o);
  int r = execSetter(c, o);
  ob << " o " << r << " " << checkOk(c) << " " << hashStr(c);
}

static std::string runBZ(IntReader &r) {
  int stage = r.nx(), hascb = r.nx(), pvar = r.nx(), effort = r.nx(), throwk = r.nx(), smode = r.nx(), pmode = r.nx(); long long seed = r.nx();
  TCircuit t = readRowsCells(r); readNets(r, t);
  Circuit c = buildCircuit(t); SplitMix g(seed);
  std::ostringstream tr, ob, items;
  ob << "S " << hashStr(c);
  CallResult res = doCall(c, stage, hascb, pvar, effort, throwk, smode, g, items, ob, 0);
  ob << " E " << res.cls << " " << checkOk(c) << " " << hashStr(c);
  std::vector<Op> post = genOps(pmode, c, g, true);
  for (auto &o : post) execOp(c, o, g, items, ob, 0);
  tr << dumpStr(buildCircuit(t)) << " " << 1 + post.size() << items.str();
  ob << " F " << dumpStr(c);
  std::ostringstream out; out << tr.str() << " # " << ob.str() << " # " << res.ninv << " " << res.cls;
  return out.str();
}

// ---------------------------------------------------------------- EVERY public placement entry point of Circuit (stream "ep")
// entry: 0 place(effort)  1 placeGlobal(effort)  2 legalize(effort)  3 placeDetailed(effort)      (arg = the effort, any int)
//        4 placeGlobal(params[, callback])  5 legalize(params[, callback])  6 placeDetailed(params[, callback])   (arg = pvar of mkParams)
struct EpOut { int cls = 0, ninv = 0, cbbad = 0; std::string msg = "-"; };
static std::string msgTok(const std::string &m) { std::string s; for (char ch : m) s += std::isalnum((unsigned char)ch) ? ch : '_'; return s.empty() ? "-" : s.substr(0, 60); }
static EpOut epCall(Circuit &c, int entry, int arg, int effort, int hascb, int throwk) {
  EpOut o; std::string rej;     // what the rejection of the effort / of the parameter set says when nothing else is involved
  if (entry <= 3) { try { ColoquinteParameters p(arg); (void)p; } catch (std::exception &e) { rej = e.what(); } }
  else { try { mkParams(arg, effort).check(); } catch (std::exception &e) { rej = e.what(); } }
  PlacementCallback cb = [&](PlacementStep) {
    int k = o.ninv++;
    // a structural modification attempted while the call is in progress must be refused
    try { std::vector<Row> rows = c.rows(); c.setRows(rows); ++o.cbbad; } catch (std::exception &e) { if (classifySetter(e) != 1) ++o.cbbad; }
    if (k == throwk) throw CbThrow{k};
  };
  std::optional<PlacementCallback> ocb; if (hascb) ocb = cb;
  try {
    switch (entry) {
      case 0: c.place(arg); break;
      case 1: c.placeGlobal(arg); break;
      case 2: c.legalize(arg); break;
      case 3: c.placeDetailed(arg); break;
      case 4: c.placeGlobal(mkParams(arg, effort), ocb); break;
      case 5: c.legalize(mkParams(arg, effort), ocb); break;
      default: c.placeDetailed(mkParams(arg, effort), ocb); break;
    }
  } catch (CbThrow &e) { o.cls = 100 + e.k; }
  catch (std::exception &e) { o.msg = msgTok(e.what()); o.cls = (!rej.empty() && rej == e.what()) ? 1 : 2; }
  return o;
}
// what the effort overloads are documented to be: the parameter overloads of the three modelled entry points on ColoquinteParameters(effort)
static EpOut epCompose(Circuit &r, int entry, int arg) {
  EpOut o;
  try {
    ColoquinteParameters p(arg);
    if (entry == 0) { r.placeGlobal(p); r.placeDetailed(p); } else if (entry == 1) r.placeGlobal(p); else if (entry == 2) r.legalize(p); else r.placeDetailed(p);
  } catch (std::exception &e) { o.msg = msgTok(e.what()); std::string rej; try { ColoquinteParameters p(arg); (void)p; } catch (std::exception &e2) { rej = e2.what(); } o.cls = (!rej.empty() && rej == e.what()) ? 1 : 2; }
  return o;
}
// the same operations on the circuit and on the reference copy that is not marked busy: "kind res chk refres equal"
static void epOps(Circuit &c, Circuit &f, const std::vector<Op> &ops, std::ostringstream &out) {
  out << ops.size();
  for (auto &o : ops) { int r = execSetter(c, o), rr = execSetter(f, o); out << " " << o.kind << " " << r << " " << checkOk(c) << " " << rr << " " << (int)(dumpStr(c) == dumpStr(f)); }
}
static std::vector<Op> restoreOps(const Circuit &c0) {
  std::vector<Op> ops;
  { Op o; o.kind = 3; for (auto &r : c0.rows_) for (long long v : {(long long)r.minX, (long long)r.maxX, (long long)r.minY, (long long)r.maxY, (long long)(int)r.orientation}) o.a.push_back(v); ops.push_back(o); }
  { Op o; o.kind = 5; for (bool b : c0.cellIsFixed_) o.a.push_back(b); ops.push_back(o); }
  { Op o; o.kind = 6; for (bool b : c0.cellIsObstruction_) o.a.push_back(b); ops.push_back(o); }
  { Op o; o.kind = 7; for (auto p : c0.cellRowPolarity_) o.a.push_back(polInt(p)); ops.push_back(o); }
  return ops;
}
// EP entry arg effort hascb throwk pmode seed entry2 arg2 <rows cells> <nets>
//  -> "EP cls1 msg1 inuse1 chk1 cbbad1 | cmpcls cmpeq | <post ops> | <restore ops> | cls2 msg2 refcls2 inuse2 chk2 eq2 | <final ops> | ninv1"
//     cls: 0 returned, 1 effort / parameter set rejected, 2 another exception of the library (infeasible legalization ...), 100+k callback threw at k
//     cmpcls cmpeq: entries 0-3 only (else -1 -1): outcome class of the composition of parameter overloads on ColoquinteParameters(effort), run on a
//       copy taken before the call, and whether the two circuits are in the same state afterwards (full dump including the flags)
//     ops: "n (kind res chk refres equal)*n": the operation on the circuit, Circuit::check() afterwards, the same operation on the REFERENCE (a copy
//       of the circuit taken right after the first call, with the in-use flag cleared: a circuit of the same content that is not being placed), and
//       whether both are in the same state afterwards.  post = genOps(pmode | 1): the seven guarded setters with acceptable and unacceptable arguments;
//       restore = setRows / setCellIsFixed / setCellIsObstruction / setCellRowPolarity with the original values; final = the restore ops once more
static std::string runEP(IntReader &r) {
  int entry = r.nx(), arg = r.nx(), effort = r.nx(), hascb = r.nx(), throwk = r.nx(), pmode = r.nx(); long long seed = r.nx(); int entry2 = r.nx(), arg2 = r.nx();
  TCircuit t = readRowsCells(r); readNets(r, t);
  Circuit c = buildCircuit(t); const Circuit c0 = c; SplitMix g(seed);
  std::ostringstream out;
  EpOut cmp; cmp.cls = -1; int cmpeq = -1;
  Circuit ref = c0;
  if (entry <= 3) cmp = epCompose(ref, entry, arg);
  EpOut o1 = epCall(c, entry, arg, effort, hascb, throwk);
  if (entry <= 3) cmpeq = dumpStr(ref) == dumpStr(c);
  out << "EP " << o1.cls << " " << o1.msg << " " << (int)c.isInUse_ << " " << checkOk(c) << " " << o1.cbbad << " | " << cmp.cls << " " << cmpeq << " | ";
  Circuit f = c; f.isInUse_ = false;                       // the reference: same content, not being placed
  epOps(c, f, genOps(pmode | 1, c, g, true), out); out << " | ";
  epOps(c, f, restoreOps(c0), out); out << " | ";
  EpOut o2 = epCall(c, entry2, arg2, 1 + (int)(seed % 3), 0, -1), r2 = epCall(f, entry2, arg2, 1 + (int)(seed % 3), 0, -1);
  out << o2.cls << " " << o2.msg << " " << r2.cls << " " << (int)c.isInUse_ << " " << checkOk(c) << " " << (int)(dumpStr(c) == dumpStr(f)) << " | ";
  epOps(c, f, restoreOps(c0), out);
  out << " | " << o1.ninv;
  return out.str();
}

// ---------------------------------------------------------------- export functions on arbitrary internal vectors
static std::string runEX(IntReader &r) {
  int kind = r.nx(); TCircuit t = readRowsCells(r); Circuit c = buildCircuit(t);
  std::string before = dumpStr(c); int m = r.nx(); int threw = 0;
  if (kind == 0) {
    std::vector<float> xs, ys; for (int i = 0; i < m; ++i) { xs.push_back(r.nx() * 0.5f); ys.push_back(r.nx() * 0.5f); }
    GlobalPlacer::exportPlacement(c, xs, ys);
  } else if (kind == 1) {
    std::vector<int> w(m, 1), h(m, 1), x(m, 0), y(m, 0); std::vector<CellRowPolarity> pol(m, CellRowPolarity::ANY); std::vector<CellOrientation> o(m, CellOrientation::N);
    Legalizer leg(std::vector<Row>(), w, h, pol, x, y, o);
    for (int i = 0; i < m; ++i) { leg.cellIsPlaced_[i] = r.nx() != 0; leg.cellToX_[i] = r.nx(); leg.cellToY_[i] = r.nx(); leg.cellToOrientation_[i] = (CellOrientation)r.nx(); }
    try { leg.exportPlacement(c); } catch (std::runtime_error &e) { threw = std::string(e.what()) == "Circuit does not match legalizer for export" ? 1 : 2; }
  } else {
    std::vector<int> w(m, -1), x(m), y(m), idx(m); std::vector<CellRowPolarity> pol(m, CellRowPolarity::ANY); std::vector<CellOrientation> o(m);
    for (int i = 0; i < m; ++i) { idx[i] = r.nx(); x[i] = r.nx(); y[i] = r.nx(); o[i] = (CellOrientation)r.nx(); }
    DetailedPlacement pl(std::vector<Row>(), w, x, y, o, pol, idx);
    pl.exportPlacement(c);
  }
  std::ostringstream out; out << before << " # " << dumpStr(c) << " " << threw; return out.str();
}

// ---------------------------------------------------------------- stage runs for the dynamic frame check
static std::string runFR(IntReader &r) {
  TCircuit t = readRowsCells(r); readNets(r, t); Circuit c = buildCircuit(t); SplitMix g(1);
  int nruns = r.nx(); std::ostringstream out;
  for (int i = 0; i < nruns; ++i) {
    int stage = r.nx(), hascb = r.nx(), pvar = r.nx(), effort = r.nx(), throwk = r.nx();
    std::ostringstream tr, ob, cbs; std::string before = dumpStr(c);
    CallResult res = doCall(c, stage, hascb, pvar, effort, throwk, 0, g, tr, ob, 0, [&](int) { cbs << " | " << dumpStr(c); });
    out << " R " << stage << " " << res.cls << " " << res.ninv << " | " << before << cbs.str() << " | " << dumpStr(c);
  }
  return out.str();
}

int main(int argc, char **argv) {
  std::string mode = argc > 1 ? argv[1] : "run";
  if (mode == "gen") {
    std::string what = argv[2]; SplitMix g(strtoull(argv[3], nullptr, 10)); long long count = atoll(argv[4]);
    for (long long it = 0; it < count; ++it) {
      if (what == "bz") {
        GenOpts o; o.nets = true; o.utilLo = 20; o.utilHi = 115; o.maxCells = 8;
        TCircuit t = genCircuit(g, o);
        int stage = (int)g.uni(0, 2), hascb = g.coin(90), pvar = g.coin(60) ? 0 : g.coin(50) ? (int)g.uni(1, 6) : (int)g.uni(kPvarBoundaryLo, kPvarBoundaryHi), effort = (int)g.uni(1, 9);
        static const int smodes[] = {1, 1, 1, 3, 5, 9, 17, 41, 73, 27, 0, 2};
        static const int pmodes[] = {9, 9, 11, 27, 31, 41, 73, 1};
        int smode = smodes[g.uni(0, 11)], pmode = pmodes[g.uni(0, 7)];
        printf("BZ %d %d %d %d -1 %d %d %lld %s %s\n", stage, hascb, pvar, effort, smode, pmode, (long long)g.uni(1, 1000000), showRowsCells(t).c_str(), showNets(t).c_str());
      } else if (what == "bo") {
        // busy-protocol scenarios whose movable cells carry the SPECIAL orientation values (INVALID = 8, UNKNOWN = 9; setCellOrientation / setSolution
        // accept every enum value), mostly with a legalization that FAILS after its parameters were accepted: 40 % one movable cell wider than every
        // row, 30 % over-full (movable row-high cells as wide as the widest row, one more of them than there are rows), 30 % as generated
        // (utilisation 20-115 %: mostly feasible).  Stage: legalize 45 %, placeDetailed 45 %, placeGlobal 10 %.
        GenOpts o; o.nets = true; o.utilLo = 20; o.utilHi = 115; o.maxCells = 8; o.turned = g.coin(50);
        TCircuit t = genCircuit(g, o);
        long long wmax = 0, rh = t.rows[0][3] - t.rows[0][2]; for (auto &r : t.rows) wmax = std::max(wmax, r[1] - r[0]);
        auto plain = [](const std::array<long long, 8> &c) { return !c[6] && (c[4] == 0 || c[4] == 1 || c[4] == 4 || c[4] == 5); };
        auto fresh = [&](long long w) { static const int os[4] = {0, 1, 4, 5}; auto &r = t.rows[g.uni(0, t.rows.size() - 1)];
          t.cells.push_back({r[0] + g.uni(-2, 2), r[2] + g.uni(-1, 1), w, rh, os[g.uni(0, 3)], g.coin(70) ? 0 : g.uni(1, 4), 0, 1}); };
        int kind = (int)g.uni(0, 9);
        if (kind >= 6) {
          std::vector<size_t> pl; for (size_t i = 0; i < t.cells.size(); ++i) if (plain(t.cells[i])) pl.push_back(i);
          if (pl.empty()) { fresh(1); pl.push_back(t.cells.size() - 1); }
          t.cells[pl[g.uni(0, pl.size() - 1)]][2] = wmax + g.uni(1, 5);
        } else if (kind >= 3) {
          size_t cnt = 0; for (auto &c : t.cells) if (plain(c) && c[3] == rh) { c[2] = wmax; ++cnt; }
          while (cnt < t.rows.size() + 1) { fresh(wmax); ++cnt; }
        }
        bool any = false;
        for (auto &c : t.cells) if (plain(c) && g.coin(50)) { c[4] = g.coin(50) ? 8 : 9; any = true; }
        if (!any) { bool done = false; for (auto &c : t.cells) if (!done && plain(c)) { c[4] = g.coin(50) ? 8 : 9; done = true; } if (!done) { fresh(1); t.cells.back()[4] = g.coin(50) ? 8 : 9; } }
        int stage = g.coin(10) ? 0 : (int)g.uni(1, 2), hascb = g.coin(90), pvar = g.coin(75) ? 0 : g.coin(40) ? (int)g.uni(1, 6) : (int)g.uni(kPvarBoundaryLo, kPvarBoundaryHi), effort = (int)g.uni(1, 9);
        static const int smodes[] = {1, 1, 3, 5, 9, 41, 27, 0, 2};
        static const int pmodes[] = {9, 11, 27, 41, 1, 3};
        int smode = smodes[g.uni(0, 8)], pmode = pmodes[g.uni(0, 5)];
        printf("BZ %d %d %d %d -1 %d %d %lld %s %s\n", stage, hascb, pvar, effort, smode, pmode, (long long)g.uni(1, 1000000), showRowsCells(t).c_str(), showNets(t).c_str());
      } else if (what == "ep") {
        // scenarios through EVERY public placement entry point (see runEP): 30 % place(effort), 10 % each of the other three effort overloads, 40 % the
        // three parameter overloads (80 % with a callback; checks/c10.py derives one run per callback index); 40 % of the efforts are rejected ones
        // (0, 10, -1, 100, INT_MIN); 40 % of the circuits cannot be legalized (a movable cell wider than every row / over-full rows), so that
        // place(effort) fails in its SECOND step; followed by the guarded setters, by a further call through any entry point, and by setters again
        static const int entries[] = {0, 0, 0, 0, 0, 0, 1, 1, 2, 2, 3, 3, 4, 4, 4, 5, 5, 6, 6, 6};
        static const int badEffort[] = {0, 10, -1, 100, std::numeric_limits<int>::min()};
        int entry = entries[g.uni(0, 19)], entry2 = g.coin(30) ? 0 : (int)g.uni(0, 6);
        GenOpts o; o.nets = true; o.utilLo = 20; o.utilHi = 85; o.maxCells = 8; o.turned = false;
        auto inGlobalDomain = [](const TCircuit &t) {      // quantifier of C06 / C07: every row at least four row-heights wide, a movable cell of positive area
          bool pos = false; for (auto &c : t.cells) if (!c[6] && c[2] > 0 && c[3] > 0) pos = true;
          for (auto &r : t.rows) if (r[1] - r[0] < 4 * (r[3] - r[2])) return false;
          return pos; };
        TCircuit t = genCircuit(g, o);
        bool wantGlobal = entry == 0 || entry == 1 || entry == 4 || entry2 == 0 || entry2 == 1 || entry2 == 4;
        for (int tries = 0; wantGlobal && !inGlobalDomain(t) && tries < 40; ++tries) { o.splitrows = tries < 20; t = genCircuit(g, o); }
        if (!inGlobalDomain(t)) { if (entry == 0) entry = 3; if (entry == 1) entry = 2; if (entry == 4) entry = 5; if (entry2 == 0) entry2 = 3; if (entry2 == 1) entry2 = 2; if (entry2 == 4) entry2 = 5; }
        long long wmax = 0, rh = t.rows[0][3] - t.rows[0][2]; for (auto &r : t.rows) wmax = std::max(wmax, r[1] - r[0]);
        auto plain = [](const std::array<long long, 8> &c) { return !c[6]; };
        auto fresh = [&](long long w) { static const int os[4] = {0, 1, 4, 5}; auto &r = t.rows[g.uni(0, t.rows.size() - 1)];
          t.cells.push_back({r[0] + g.uni(-2, 2), r[2] + g.uni(-1, 1), w, rh, os[g.uni(0, 3)], 0, 0, 1}); };
        int kind = (int)g.uni(0, 9);
        if (kind >= 8) {           // one movable cell wider than every row
          std::vector<size_t> pl; for (size_t i = 0; i < t.cells.size(); ++i) if (plain(t.cells[i])) pl.push_back(i);
          if (pl.empty()) { fresh(1); pl.push_back(t.cells.size() - 1); }
          auto &cl = t.cells[pl[g.uni(0, pl.size() - 1)]]; cl[2] = wmax + g.uni(1, 5); cl[3] = rh;
        } else if (kind >= 6) {    // over-full: row-high cells as wide as the widest row, one more than there are rows
          size_t cnt = 0; for (auto &c : t.cells) if (plain(c) && c[3] == rh) { c[2] = wmax; ++cnt; }
          while (cnt < t.rows.size() + 1) { fresh(wmax); ++cnt; }
        }
        int arg, effort = (int)g.uni(1, 9), hascb = 0;
        if (entry <= 3) arg = g.coin(40) ? badEffort[g.uni(0, 4)] : (int)g.uni(1, entry <= 1 ? 4 : 9);
        else { arg = g.coin(60) ? 0 : g.coin(50) ? (int)g.uni(1, 6) : (int)g.uni(kPvarBoundaryLo, kPvarBoundaryHi); hascb = g.coin(80); }
        int arg2 = entry2 <= 3 ? (g.coin(30) ? badEffort[g.uni(0, 4)] : (int)g.uni(1, 3)) : (g.coin(75) ? 0 : (int)g.uni(1, 6));
        static const int pmodes[] = {1, 1, 3, 5, 17};
        printf("EP %d %d %d %d -1 %d %lld %d %d %s %s\n", entry, arg, effort, hascb, pmodes[g.uni(0, 4)], (long long)g.uni(1, 1000000), entry2, arg2,
               showRowsCells(t).c_str(), showNets(t).c_str());
      } else if (what == "ex") {
        GenOpts o; o.maxCells = 10; TCircuit t = genCircuit(g, o);
        for (auto &cl : t.cells) if (g.coin(30)) cl[6] = 1;            // more fixed cells, also first / last / consecutive
        if (g.coin(25))                                                 // far-away fixed pads: coordinates that binary32 cannot hold exactly
          for (auto &cl : t.cells) if (cl[6] && g.coin(60)) {
            long long mag = 1LL << g.uni(22, 29);
            cl[0] = (g.coin(50) ? 1 : -1) * (mag + g.uni(0, 1000)); if (g.coin(50)) cl[1] = (g.coin(50) ? 1 : -1) * (mag + g.uni(0, 1000));
            if (g.coin(50)) { cl[2] = 2 * g.uni(0, 20) + 1; cl[3] = 2 * g.uni(0, 20) + 1; }
          }
        int n = (int)t.cells.size(), kind = (int)g.uni(0, 2); std::ostringstream s;
        if (kind == 0) { s << n; for (int i = 0; i < n; ++i) s << " " << g.uni(-200, 200) << " " << g.uni(-200, 200); }
        else if (kind == 1) { int mov = 0; for (auto &cl : t.cells) mov += !cl[6]; int m = g.coin(70) ? mov : (int)g.uni(0, n + 2); s << m; for (int i = 0; i < m; ++i) s << " " << g.coin(80) << " " << g.uni(-99, 99) << " " << g.uni(-99, 99) << " " << g.uni(0, 9); }
        else { int m = (int)g.uni(0, n + 3); s << m; for (int i = 0; i < m; ++i) s << " " << g.uni(-1, n - 1) << " " << g.uni(-99, 99) << " " << g.uni(-99, 99) << " " << g.uni(0, 9); }
        printf("EX %d %s %s\n", kind, showRowsCells(t).c_str(), s.str().c_str());
      } else {   // fr
        GenOpts o; o.nets = true; o.utilLo = 15; o.utilHi = 110; o.maxCells = g.coin(30) ? 30 : 12;
        TCircuit t = genCircuit(g, o);
        if (g.coin(12))                                                 // far-away fixed pads (see "ex")
          for (auto &cl : t.cells) if (cl[6] && g.coin(60)) {
            long long mag = 1LL << g.uni(22, 27);
            cl[0] = (g.coin(50) ? 1 : -1) * (mag + g.uni(0, 1000)); if (g.coin(50)) cl[1] = (g.coin(50) ? 1 : -1) * (mag + g.uni(0, 1000));
            if (g.coin(50)) { cl[2] = 2 * g.uni(0, 20) + 1; cl[3] = 2 * g.uni(0, 20) + 1; }
          }
        std::ostringstream s; int kindseq = (int)g.uni(0, 5); std::vector<int> stages;
        switch (kindseq) { case 0: stages = {0}; break; case 1: stages = {1}; break; case 2: stages = {2}; break; case 3: stages = {0, 1, 2}; break; case 4: stages = {1, 2}; break; default: stages = {0, 2}; break; }
        s << stages.size();
        for (int st : stages) {
          int pv = g.coin(76) ? 0 : g.coin(50) ? (int)g.uni(1, 6) : (int)g.uni(kPvarBoundaryLo, kPvarBoundaryHi), eff = (int)g.uni(1, 9);
          if (pv == 0 && g.coin(20)) { pv = 7; eff = (int)g.uni(1, 3); }                  // uncapped defaults (many callbacks)
          s << " " << st << " " << g.coin(70) << " " << pv << " " << eff << " " << (g.coin(60) ? -1 : (int)g.uni(0, pv == 7 ? 40 : 5));
        }
        printf("FR %s %s %s\n", showRowsCells(t).c_str(), showNets(t).c_str(), s.str().c_str());
      }
    }
    return 0;
  }
  vh_install(); vh_silence();
  std::string line;
  while (std::getline(std::cin, line)) {
    if (line.size() < 3) { printf("\n"); continue; }
    IntReader r; r.v = vh_ints(line.substr(3));
    if (sigsetjmp(vh_jmp, 1)) { printf("SIGNAL %s\n", vh_signame()); fflush(stdout); continue; }
    try {
      std::string res = line[0] == 'B' ? runBZ(r) : line.compare(0, 3, "EP ") == 0 ? runEP(r) : line[0] == 'E' ? runEX(r) : runFR(r);
      printf("%s\n", res.c_str());
    } catch (std::exception &ex) { printf("THROW-OUTER %s\n", ex.what()); }
    catch (CbThrow &) { printf("THROW-OUTER callback exception escaped\n"); }
    fflush(stdout);
  }
  return 0;
}
