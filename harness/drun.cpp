// C02/C05 harness for the CLOSED model of DetailedPlacer::run() and its passes (coq/DetailedRun.v)
//   drun gen rand SEED COUNT MODE     MODE bits: 2 = no turned cells, 16 = no polarity
//   drun run < cases
// cases:
//   "DR <rows> <cells> <nets> nops (op a b)*"   op 3 = runSwaps(a, b) (a = nbRows, b = nbNeighbours), op 6 = runReordering(a, b)
//        result: "NOLEG" | "INIT xv yv ;placement ; rows / P xv yv ;placement ; rows ; check / ..."   (" / THROW msg" ends the case)
//   "DW <rows> <cells> <nets> nbPasses lsNbNeighbours lsNbRows shiftNbRows shiftMaxNbCells reordNbRows reordMaxNbCells how"
//        how = 0: the body of DetailedPlacer::place replayed by the harness (legalize, construct, callback_, check, run, check, export)
//                 so that value() is readable at every callback;  how = 1: Circuit::placeDetailed(params, callback) itself
//        result: "NOLEG" | "LEG ;placement / INIT xv yv ;placement ; rows / CB xv yv ;placement ; rows / ... / FINAL xv yv ;placement ; rows ; check"
//                with how = 1: "LEG ;placement / CB ;placement / ... / FINAL ;placement"
// placement = x y orient of every cell (after exportPlacement into a copy of the circuit / of the circuit the callback sees);
// rows = "nrows (ncells id*)*" = rowCells(r) of every row; xv yv = xtopo_.value() ytopo_.value().
#include "vh.hpp"
#include <optional>
#include <unordered_set>
#define private public
#include "place_detailed/place_detailed.hpp"
#undef private
#include "cgen.hpp"

static std::string statePl(DetailedPlacer &pl, const Circuit &base) { Circuit c = base; pl.exportPlacement(c); return showPlacement(c); }
static std::string rowsDump(const DetailedPlacement &dp) {
  std::ostringstream s; s << dp.nbRows();
  for (int r = 0; r < dp.nbRows(); ++r) { auto cs = dp.rowCells(r); s << " " << cs.size(); for (int c : cs) s << " " << c; }
  return s.str();
}
static std::string chk(DetailedPlacer &pl) { try { pl.check(); return "ok"; } catch (std::exception &e) { return std::string("CHECKFAIL ") + e.what(); } }
static std::string full(DetailedPlacer &pl, const Circuit &base) {
  std::ostringstream s; s << (long long)pl.xtopo_.value() << " " << (long long)pl.ytopo_.value() << " ;" << statePl(pl, base) << " ; " << rowsDump(pl.placement_);
  return s.str();
}
extern "C" void coloquinte_verif_shift_hook(const void *, int, const int *, int, const int *, const int *, const long long *, const long long *, int,
                                            const int *, const int *, const long long *, const long long *) {}
extern "C" void coloquinte_verif_reorder_hook(int, int, long long, int, long long) {}

// rows of DIFFERENT x-extent, side by side pieces at one y, empty and one-cell rows; row-high cells only; small integer
// coordinates (exact value ties are frequent); nets of 2..4 pins, some to fixed pads
static TCircuit genStagger(SplitMix &g, const GenOpts &o) {
  TCircuit t; long long rh = 2 * g.uni(1, 3); int ny = (int)g.uni(2, 6);
  long long x0 = g.uni(-15, 15), y0 = g.uni(-15, 15);
  int pattern = (int)g.uni(0, 2);
  for (int i = 0; i < ny; ++i) {
    int ro = pattern == 0 ? ((i % 2 == 0) ? 0 : 5) : pattern == 1 ? 0 : (g.coin(50) ? 0 : 5);
    long long y = y0 + i * rh; int pieces = g.coin(35) ? (int)g.uni(2, 3) : 1;
    long long x = x0 + g.uni(-6, 6);
    for (int k = 0; k < pieces; ++k) { long long w = g.uni(g.coin(10) ? 0 : 3, 18); t.rows.push_back({x, x + w, y, y + rh, ro}); x += w + (g.coin(50) ? 0 : g.uni(1, 4)); }
  }
  for (size_t i = t.rows.size(); i > 1; --i) std::swap(t.rows[i - 1], t.rows[g.uni(0, i - 1)]);
  long long totalW = 0; for (auto &r : t.rows) totalW += r[1] - r[0];
  int n = (int)g.uni(2, o.maxCells); long long budget = totalW * g.uni(25, 80) / 100, used = 0;
  for (int i = 0; i < n; ++i) {
    long long ww = g.uni(1, 4); if (used + ww > budget) ww = 1; used += ww;
    int pol = (o.polarity && g.coin(30)) ? (int)g.uni(1, 4) : 0; int os[4] = {0, 1, 4, 5};
    t.cells.push_back({x0 + g.uni(-8, 30), y0 + g.uni(-1, ny) * rh, ww, rh, os[g.uni(0, 3)], pol, 0, 1});
  }
  int npads = (int)g.uni(1, 3); int first = (int)t.cells.size();
  for (int k = 0; k < npads; ++k) t.cells.push_back({x0 + g.uni(-12, 34), y0 + g.uni(-6, ny * rh + 6), 1, 1, 0, 0, 1, 0});
  int nn = (int)g.uni(1, 2 * n + 2);
  for (int k = 0; k < nn; ++k) {
    int d = (int)g.uni(2, 4); std::vector<std::array<long long, 3>> net;
    for (int j = 0; j < d; ++j) { int cc = g.coin(20) ? first + (int)g.uni(0, npads - 1) : (int)g.uni(0, n - 1); net.push_back({cc, g.uni(0, t.cells[cc][2]), g.uni(0, t.cells[cc][3])}); }
    t.nets.push_back(net); t.netw2.push_back(2);
  }
  return t;
}

// cut-offs 0 / 1 / 2 / small / large; 1 in 40: INT_MAX or just below (accepted by DetailedPlacerParameters::check; `i + nbNeighbours + 1`)
static int pickCut(SplitMix &g) { if (g.coin(3)) return 2147483647 - (int)g.uni(0, 3) * (int)g.uni(0, 20); int k = (int)g.uni(0, 9); return k < 2 ? 0 : k < 5 ? 1 : k < 7 ? 2 : k < 9 ? (int)g.uni(3, 6) : (int)g.uni(20, 1000); }

int main(int argc, char **argv) {
  std::string mode = argc > 1 ? argv[1] : "run";
  if (mode == "gen") {
    SplitMix g(strtoull(argv[3], nullptr, 10)); long long count = atoll(argv[4]); int m = argc > 5 ? atoi(argv[5]) : 0;
    for (long long it = 0; it < count; ++it) {
      GenOpts o; o.nets = true; o.utilLo = 20; o.utilHi = 85; o.maxCells = g.coin(10) ? (int)g.uni(22, 40) : (int)g.uni(6, 22);
      if (m & 2) o.turned = false; if (m & 16) o.polarity = false;
      TCircuit t = g.coin(45) ? genStagger(g, o) : genCircuit(g, o);
      if (g.coin(60)) {
        int nops = (int)g.uni(1, 4);
        printf("DR %s %s %d", showRowsCells(t).c_str(), showNets(t).c_str(), nops);
        for (int k = 0; k < nops; ++k) {
          if (g.coin(65)) printf(" 3 %d %d", pickCut(g), pickCut(g));
          else printf(" 6 %d %d", (int)g.uni(1, 4), (int)g.uni(g.coin(10) ? 0 : 2, 5));
        }
        printf("\n");
      } else {
        // nbPasses 0..3; shiftMaxNbCells < 2 (no shift pass: accepted by DetailedPlacerParameters::check); reordering on / off
        printf("DW %s %s %d %d %d %d %d %d %d %d\n", showRowsCells(t).c_str(), showNets(t).c_str(), (int)g.uni(0, 3), pickCut(g), pickCut(g),
               (int)g.uni(1, 4), (int)g.uni(0, 1), (int)g.uni(1, 3), g.coin(40) ? (int)g.uni(0, 1) : (int)g.uni(2, 4), g.coin(25) ? 1 : 0);
      }
    }
    return 0;
  }
  vh_install(); vh_silence();
  std::string line;
  while (std::getline(std::cin, line)) {
    if (line.size() < 3) { printf("\n"); continue; }
    bool whole = line[1] == 'W';
    IntReader r; r.v = vh_ints(line.substr(3));
    if (sigsetjmp(vh_jmp, 1)) { printf(" / %s\n", vh_signame()); fflush(stdout); continue; }
    try {
      TCircuit t = readRowsCells(r); readNets(r, t);
      Circuit c = buildCircuit(t);
      if (!whole) {
        ColoquinteParameters p(3);
        try { c.legalize(p); } catch (std::exception &e) { printf("NOLEG\n"); continue; }
        DetailedPlacer pl(c, p);
        printf("INIT %s", full(pl, c).c_str());
        int nops = (int)r.nx();
        for (int k = 0; k < nops; ++k) {
          int ty = (int)r.nx(), a = (int)r.nx(), b = (int)r.nx();
          try {
            if (ty == 3) pl.runSwaps(a, b); else pl.runReordering(a, b);
            printf(" / P %s ; %s", full(pl, c).c_str(), chk(pl).c_str());
          } catch (std::exception &e) { printf(" / THROW %s", e.what()); break; }
        }
        printf("\n");
      } else {
        ColoquinteParameters p(3);
        p.detailed.nbPasses = (int)r.nx(); p.detailed.localSearchNbNeighbours = (int)r.nx(); p.detailed.localSearchNbRows = (int)r.nx();
        p.detailed.shiftNbRows = (int)r.nx(); p.detailed.shiftMaxNbCells = (int)r.nx(); p.detailed.reorderingNbRows = (int)r.nx();
        p.detailed.reorderingMaxNbCells = (int)r.nx(); int how = (int)r.nx();
        std::ostringstream out; bool first = true; DetailedPlacer *cur = nullptr; Circuit *base = nullptr;
        std::optional<PlacementCallback> cb = [&](PlacementStep) {
          if (first) { out << "LEG ;" << showPlacement(c); first = false; return; }
          if (cur) out << " / CB " << full(*cur, *base); else out << " / CB ;" << showPlacement(c);
        };
        try {
          if (how == 1) { c.placeDetailed(p, cb); out << " / FINAL ;" << showPlacement(c); }
          else {
            try { DetailedPlacer::legalize(c, p, cb); } catch (std::exception &e) { if (first) { printf("NOLEG\n"); continue; } throw; }
            p.check();
            Circuit legalized = c; base = &legalized;
            DetailedPlacer pl(c, p); pl.callback_ = cb; cur = &pl;
            out << " / INIT " << full(pl, legalized);
            pl.check(); pl.run(); pl.check(); pl.exportPlacement(c);
            out << " / FINAL " << full(pl, legalized) << " ; " << chk(pl);
          }
          printf("%s\n", first ? "NOLEG" : out.str().c_str());
        } catch (std::exception &e) { if (first) printf("NOLEG\n"); else printf("%s / THROW %s\n", out.str().c_str(), e.what()); }
      }
    } catch (std::exception &ex) { printf(" / THROW-OUTER %s\n", ex.what()); }
    fflush(stdout);
  }
  return 0;
}
