// C02/C05 harness for the CLOSED model of DetailedPlacer::run() and its passes (coq/DetailedRun.v)
//   drun gen rand SEED COUNT MODE     MODE bits: 2 = no turned cells, 16 = no polarity
//   drun run < cases
// cases:
//   "DR <rows> <cells> <nets> nops (op a b)*"   op 3 = runSwaps(a, b) (a = nbRows, b = nbNeighbours), op 6 = runReordering(a, b)
//        result: "NOLEG" | "INIT xv yv ;placement ; rows / P xv yv ;placement ; rows ; check / ..."   (" / THROW msg" ends the case)
//   "DW <rows> <cells> <nets> nbPasses lsNbNeighbours lsNbRows shiftNbRows shiftMaxNbCells reordNbRows reordMaxNbCells how"
//        how = 0: the body of DetailedPlacer::place replayed by the harness (legalize, construct, callback_, check, run, check, export)
//                 so that value() is readable at every callback;  how = 1: Circuit::placeDetailed(params, callback) itself
//        result: "NOLEG" | "LEG ;placement / INIT xv yv ;placement ; rows / CB xv yv ;placement ; rows / ... / FINAL xv yv ;placement ; rows ; check"
//                with how = 1: "LEG ;placement / CB ;placement / ... / FINAL ;placement"
// placement = x y orient of every cell (after exportPlacement into a copy of the circuit / of the circuit the callback sees);
// rows = "nrows (ncells id*)*" = rowCells(r) of every row; xv yv = xtopo_.value() ytopo_.value().
#include "vh.hpp"
#include <optional>
#include <unordered_set>
#define private public
#include "place_detailed/place_detailed.hpp"
#undef private
#include "cgen.hpp"

static std::string statePl(DetailedPlacer &pl, const Circuit &base) { Circuit c = base; pl.exportPlacement(c); return showPlacement(c); }
static std::string rowsDump(const DetailedPlacement &dp) {
  std::ostringstream s; s << dp.nbRows();
  for (int r = 0; r < dp.nbRows(); ++r) { auto cs = dp.rowCells(r); s << " " << cs.size(); for (int c : cs) s << " " << c; }
  return s.str();
}
static std::string chk(DetailedPlacer &pl) { try { pl.check(); return "ok"; } catch (std::exception &e) { return std::string("CHECKFAIL ") + e.what(); } }
static std::string full(DetailedPlacer &pl, const Circuit &base) {
  std::ostringstream s; s << (long long)pl.xtopo_.value() << " " << (long long)pl.ytopo_.value() << " ;" << statePl(pl, base) << " ; " << rowsDump(pl.placement_);
  return s.str();
}
// ---- DS cases (whole runs WITH the shift pass): one record per runShiftsOnCells call, in call order, through hook 2 of /repo:
// "k cell*k nnodes (kind id potential)*nnodes narcs (src tgt cost flow)*narcs"   kind: 0 cell, 1 L_net, 2 U_net, 3 fixed; src/tgt = node indices
static bool g_shiftRecOn = false;
static std::vector<std::string> g_shiftRec;
extern "C" void coloquinte_verif_shift_hook(const void *, int nbCells, const int *cells, int nbNodes, const int *nodeKind, const int *nodeId,
                                            const long long *, const long long *nodePotential, int nbArcs,
                                            const int *arcSource, const int *arcTarget, const long long *arcCost, const long long *arcFlow) {
  if (!g_shiftRecOn) return;
  std::ostringstream s; s << nbCells; for (int i = 0; i < nbCells; ++i) s << " " << cells[i];
  s << " " << nbNodes; for (int i = 0; i < nbNodes; ++i) s << " " << nodeKind[i] << " " << nodeId[i] << " " << nodePotential[i];
  s << " " << nbArcs; for (int i = 0; i < nbArcs; ++i) s << " " << arcSource[i] << " " << arcTarget[i] << " " << arcCost[i] << " " << arcFlow[i];
  g_shiftRec.push_back(s.str());
}
extern "C" void coloquinte_verif_reorder_hook(int, int, long long, int, long long) {}

// rows of DIFFERENT x-extent, side by side pieces at one y, empty and one-cell rows; row-high cells only; small integer
// coordinates (exact value ties are frequent); nets of 2..4 pins, some to fixed pads
static TCircuit genStagger(SplitMix &g, const GenOpts &o) {
  TCircuit t; long long rh = 2 * g.uni(1, 3); int ny = (int)g.uni(2, 6);
  long long x0 = g.uni(-15, 15), y0 = g.uni(-15, 15);
  int pattern = (int)g.uni(0, 2);
  for (int i = 0; i < ny; ++i) {
    int ro = pattern == 0 ? ((i % 2 == 0) ? 0 : 5) : pattern == 1 ? 0 : (g.coin(50) ? 0 : 5);
    long long y = y0 + i * rh; int pieces = g.coin(35) ? (int)g.uni(2, 3) : 1;
    long long x = x0 + g.uni(-6, 6);
    for (int k = 0; k < pieces; ++k) { long long w = g.uni(g.coin(10) ? 0 : 3, 18); t.rows.push_back({x, x + w, y, y + rh, ro}); x += w + (g.coin(50) ? 0 : g.uni(1, 4)); }
  }
  for (size_t i = t.rows.size(); i > 1; --i) std::swap(t.rows[i - 1], t.rows[g.uni(0, i - 1)]);
  long long totalW = 0; for (auto &r : t.rows) totalW += r[1] - r[0];
  int n = (int)g.uni(2, o.maxCells); long long budget = totalW * g.uni(25, 80) / 100, used = 0;
  for (int i = 0; i < n; ++i) {
    long long ww = g.uni(1, 4); if (used + ww > budget) ww = 1; used += ww;
    int pol = (o.polarity && g.coin(30)) ? (int)g.uni(1, 4) : 0; int os[4] = {0, 1, 4, 5};
    t.cells.push_back({x0 + g.uni(-8, 30), y0 + g.uni(-1, ny) * rh, ww, rh, os[g.uni(0, 3)], pol, 0, 1});
  }
  int npads = (int)g.uni(1, 3); int first = (int)t.cells.size();
  for (int k = 0; k < npads; ++k) t.cells.push_back({x0 + g.uni(-12, 34), y0 + g.uni(-6, ny * rh + 6), 1, 1, 0, 0, 1, 0});
  int nn = (int)g.uni(1, 2 * n + 2);
  for (int k = 0; k < nn; ++k) {
    int d = (int)g.uni(2, 4); std::vector<std::array<long long, 3>> net;
    for (int j = 0; j < d; ++j) { int cc = g.coin(20) ? first + (int)g.uni(0, npads - 1) : (int)g.uni(0, n - 1); net.push_back({cc, g.uni(0, t.cells[cc][2]), g.uni(0, t.cells[cc][3])}); }
    t.nets.push_back(net); t.netw2.push_back(2);
  }
  return t;
}

// cut-offs 0 / 1 / 2 / small / large; 1 in 40: INT_MAX or just below (accepted by DetailedPlacerParameters::check; `i + nbNeighbours + 1`)
static int pickCut(SplitMix &g) { if (g.coin(3)) return 2147483647 - (int)g.uni(0, 3) * (int)g.uni(0, 20); int k = (int)g.uni(0, 9); return k < 2 ? 0 : k < 5 ? 1 : k < 7 ? 2 : k < 9 ? (int)g.uni(3, 6) : (int)g.uni(20, 1000); }

// ---- DS: "DS <rows> <cells> <nets> nbPasses lsNbNeighbours lsNbRows shiftNbRows shiftMaxNbCells reordNbRows reordMaxNbCells how"
//      nbPasses = -1: the DEFAULT parameter set ColoquinteParameters(effort), effort in the next field.  how as for DW.
//      result: "NOLEG" | "PARAMS p1..p7 / LEG ;placement / INIT ... / CB ... / FINAL ... [/ THROW msg] / L record / L record ..."
//      (the records of all runShiftsOnCells calls of the run, in call order; coordinates stay small: lemon's simplex cycles near INT_MAX/2)
// DS sub-stream "dense": 2..3 full-width rows with 24..40 narrow cells, a row set covering all rows (shiftNbRows 6..20) and
// shiftMaxNbCells in {21, 22, 25}: the cap of overlap = min(maxNbCells / 2, 10) and a SECOND window at step maxNbCells - 10 are exercised
static TCircuit genDenseShift(SplitMix &g) {
  TCircuit t; long long rh = 2 * g.uni(1, 2); int ny = (int)g.uni(2, 3); long long x0 = g.uni(-10, 10), y0 = g.uni(-10, 10), W = g.uni(28, 44);
  for (int i = 0; i < ny; ++i) t.rows.push_back({x0, x0 + W, y0 + i * rh, y0 + (i + 1) * rh, (i % 2 == 0) ? 0 : 5});
  int n = (int)g.uni(24, 40); long long budget = W * ny * 8 / 10, used = 0;
  for (int i = 0; i < n; ++i) { long long ww = g.uni(1, 2); if (used + ww > budget) ww = 1; used += ww; if (used > budget) { n = i; break; }
    t.cells.push_back({x0 + g.uni(0, W), y0 + g.uni(0, ny - 1) * rh, ww, rh, 0, 0, 0, 1}); }
  int first = (int)t.cells.size(); for (int k = 0; k < 3; ++k) t.cells.push_back({x0 + g.uni(-6, W + 6), y0 + g.uni(-4, ny * rh + 4), 1, 1, 0, 0, 1, 0});
  int nn = (int)g.uni(n / 2, 2 * n);
  for (int k = 0; k < nn; ++k) { int d = (int)g.uni(2, 3); std::vector<std::array<long long, 3>> net;
    for (int j = 0; j < d; ++j) { int cc = g.coin(15) ? first + (int)g.uni(0, 2) : (int)g.uni(0, n - 1); net.push_back({cc, g.uni(0, t.cells[cc][2]), g.uni(0, t.cells[cc][3])}); }
    t.nets.push_back(net); t.netw2.push_back(2); }
  return t;
}

static void genShiftCases(SplitMix &g, long long count, int m) {
  static const int mx[] = {2, 2, 3, 3, 4, 5, 6, 8, 12, 21, 25, 50, 120};
  for (long long it = 0; it < count; ++it) {
    if (g.coin(8)) { TCircuit t = genDenseShift(g); static const int dm[] = {21, 22, 25};
      printf("DS %s %s 1 %d %d %d %d 1 1 %d\n", showRowsCells(t).c_str(), showNets(t).c_str(), (int)g.uni(0, 2), (int)g.uni(0, 2), (int)g.uni(6, 20), dm[g.uni(0, 2)], g.coin(25) ? 1 : 0);
      continue; }
    GenOpts o; o.nets = true; o.utilLo = 20; o.utilHi = 85; o.maxCells = g.coin(15) ? (int)g.uni(22, 36) : (int)g.uni(5, 22);
    if (m & 2) o.turned = false; if (m & 16) o.polarity = false;
    TCircuit t = g.coin(50) ? genStagger(g, o) : genCircuit(g, o);
    int how = g.coin(25) ? 1 : 0;
    if (g.coin(25)) { printf("DS %s %s -1 %d 0 0 0 0 0 %d\n", showRowsCells(t).c_str(), showNets(t).c_str(), (int)g.uni(1, 9), how); continue; }
    int snr = g.coin(10) ? 1 : g.coin(8) ? (int)g.uni(7, 60) : (int)g.uni(2, 6);
    printf("DS %s %s %d %d %d %d %d %d %d %d\n", showRowsCells(t).c_str(), showNets(t).c_str(), (int)g.uni(1, 3), (int)g.uni(0, 4), (int)g.uni(0, 4),
           snr, mx[g.uni(0, 12)], (int)g.uni(1, 2), g.coin(70) ? 1 : (int)g.uni(2, 3), how);
  }
}

static void runShiftCase(const std::string &line) {
  IntReader r; r.v = vh_ints(line.substr(3));
  g_shiftRec.clear(); g_shiftRecOn = false;
  if (sigsetjmp(vh_jmp, 1)) { g_shiftRecOn = false; printf(" / %s\n", vh_signame()); fflush(stdout); return; }
  try {
    TCircuit t = readRowsCells(r); readNets(r, t);
    Circuit c = buildCircuit(t);
    ColoquinteParameters p(3);
    int np = (int)r.nx();
    if (np == -1) { p = ColoquinteParameters((int)r.nx()); for (int i = 0; i < 5; ++i) r.nx(); }
    else {
      p.detailed.nbPasses = np; p.detailed.localSearchNbNeighbours = (int)r.nx(); p.detailed.localSearchNbRows = (int)r.nx();
      p.detailed.shiftNbRows = (int)r.nx(); p.detailed.shiftMaxNbCells = (int)r.nx(); p.detailed.reorderingNbRows = (int)r.nx();
      p.detailed.reorderingMaxNbCells = (int)r.nx();
    }
    int how = (int)r.nx();
    std::ostringstream out; bool first = true; DetailedPlacer *cur = nullptr; Circuit *base = nullptr;
    out << "PARAMS " << p.detailed.nbPasses << " " << p.detailed.localSearchNbNeighbours << " " << p.detailed.localSearchNbRows << " " << p.detailed.shiftNbRows
        << " " << p.detailed.shiftMaxNbCells << " " << p.detailed.reorderingNbRows << " " << p.detailed.reorderingMaxNbCells;
    std::optional<PlacementCallback> cb = [&](PlacementStep) {
      if (first) { out << " / LEG ;" << showPlacement(c); first = false; g_shiftRecOn = true; return; }
      if (cur) out << " / CB " << full(*cur, *base); else out << " / CB ;" << showPlacement(c);
    };
    std::string thrown;
    try {
      if (how == 1) { c.placeDetailed(p, cb); out << " / FINAL ;" << showPlacement(c); }
      else {
        DetailedPlacer::legalize(c, p, cb);
        p.check();
        Circuit legalized = c; base = &legalized;
        DetailedPlacer pl(c, p); pl.callback_ = cb; cur = &pl;
        out << " / INIT " << full(pl, legalized);
        pl.check(); pl.run(); pl.check(); pl.exportPlacement(c);
        out << " / FINAL " << full(pl, legalized) << " ; " << chk(pl);
      }
    } catch (std::exception &e) { thrown = e.what(); }
    g_shiftRecOn = false;
    if (first) { printf("NOLEG\n"); fflush(stdout); return; }
    if (!thrown.empty()) out << " / THROW " << thrown;
    for (const std::string &rec : g_shiftRec) out << " / L " << rec;
    printf("%s\n", out.str().c_str());
  } catch (std::exception &ex) { g_shiftRecOn = false; printf(" / THROW-OUTER %s\n", ex.what()); }
  fflush(stdout);
}

int main(int argc, char **argv) {
  std::string mode = argc > 1 ? argv[1] : "run";
  if (mode == "gen" && argc > 4 && std::string(argv[2]) == "shift") { SplitMix g(strtoull(argv[3], nullptr, 10)); genShiftCases(g, atoll(argv[4]), argc > 5 ? atoi(argv[5]) : 0); return 0; }
  if (mode == "gen") {
    SplitMix g(strtoull(argv[3], nullptr, 10)); long long count = atoll(argv[4]); int m = argc > 5 ? atoi(argv[5]) : 0;
    for (long long it = 0; it < count; ++it) {
      GenOpts o; o.nets = true; o.utilLo = 20; o.utilHi = 85; o.maxCells = g.coin(10) ? (int)g.uni(22, 40) : (int)g.uni(6, 22);
      if (m & 2) o.turned = false; if (m & 16) o.polarity = false;
      TCircuit t = g.coin(45) ? genStagger(g, o) : genCircuit(g, o);
      if (g.coin(60)) {
        int nops = (int)g.uni(1, 4);
        printf("DR %s %s %d", showRowsCells(t).c_str(), showNets(t).c_str(), nops);
        for (int k = 0; k < nops; ++k) {
          if (g.coin(65)) printf(" 3 %d %d", pickCut(g), pickCut(g));
          else printf(" 6 %d %d", (int)g.uni(1, 4), (int)g.uni(g.coin(10) ? 0 : 2, 5));
        }
        printf("\n");
      } else {
        // nbPasses 0..3; shiftMaxNbCells < 2 (no shift pass: accepted by DetailedPlacerParameters::check); reordering on / off
        printf("DW %s %s %d %d %d %d %d %d %d %d\n", showRowsCells(t).c_str(), showNets(t).c_str(), (int)g.uni(0, 3), pickCut(g), pickCut(g),
               (int)g.uni(1, 4), (int)g.uni(0, 1), (int)g.uni(1, 3), g.coin(40) ? (int)g.uni(0, 1) : (int)g.uni(2, 4), g.coin(25) ? 1 : 0);
      }
    }
    return 0;
  }
  vh_install(); vh_silence();
  std::string line;
  while (std::getline(std::cin, line)) {
    if (line.size() < 3) { printf("\n"); continue; }
    if (line[1] == 'S') { runShiftCase(line); continue; }
    bool whole = line[1] == 'W';
    IntReader r; r.v = vh_ints(line.substr(3));
    if (sigsetjmp(vh_jmp, 1)) { printf(" / %s\n", vh_signame()); fflush(stdout); continue; }
    try {
      TCircuit t = readRowsCells(r); readNets(r, t);
      Circuit c = buildCircuit(t);
      if (!whole) {
        ColoquinteParameters p(3);
        try { c.legalize(p); } catch (std::exception &e) { printf("NOLEG\n"); continue; }
        DetailedPlacer pl(c, p);
        printf("INIT %s", full(pl, c).c_str());
        int nops = (int)r.nx();
        for (int k = 0; k < nops; ++k) {
          int ty = (int)r.nx(), a = (int)r.nx(), b = (int)r.nx();
          try {
            if (ty == 3) pl.runSwaps(a, b); else pl.runReordering(a, b);
            printf(" / P %s ; %s", full(pl, c).c_str(), chk(pl).c_str());
          } catch (std::exception &e) { printf(" / THROW %s", e.what()); break; }
        }
        printf("\n");
      } else {
        ColoquinteParameters p(3);
        p.detailed.nbPasses = (int)r.nx(); p.detailed.localSearchNbNeighbours = (int)r.nx(); p.detailed.localSearchNbRows = (int)r.nx();
        p.detailed.shiftNbRows = (int)r.nx(); p.detailed.shiftMaxNbCells = (int)r.nx(); p.detailed.reorderingNbRows = (int)r.nx();
        p.detailed.reorderingMaxNbCells = (int)r.nx(); int how = (int)r.nx();
        std::ostringstream out; bool first = true; DetailedPlacer *cur = nullptr; Circuit *base = nullptr;
        std::optional<PlacementCallback> cb = [&](PlacementStep) {
          if (first) { out << "LEG ;" << showPlacement(c); first = false; return; }
          if (cur) out << " / CB " << full(*cur, *base); else out << " / CB ;" << showPlacement(c);
        };
        try {
          if (how == 1) { c.placeDetailed(p, cb); out << " / FINAL ;" << showPlacement(c); }
          else {
            try { DetailedPlacer::legalize(c, p, cb); } catch (std::exception &e) { if (first) { printf("NOLEG\n"); continue; } throw; }
            p.check();
            Circuit legalized = c; base = &legalized;
            DetailedPlacer pl(c, p); pl.callback_ = cb; cur = &pl;
            out << " / INIT " << full(pl, legalized);
            pl.check(); pl.run(); pl.check(); pl.exportPlacement(c);
            out << " / FINAL " << full(pl, legalized) << " ; " << chk(pl);
          }
          printf("%s\n", first ? "NOLEG" : out.str().c_str());
        } catch (std::exception &e) { if (first) printf("NOLEG\n"); else printf("%s / THROW %s\n", out.str().c_str(), e.what()); }
      }
    } catch (std::exception &ex) { printf(" / THROW-OUTER %s\n", ex.what()); }
    fflush(stdout);
  }
  return 0;
}
