// C07 harness: the integer cores of global placement at the boundaries of the magnitude domains of Properties_C07.v,
// run from /repo's working tree under the sanitizer build (observation side of the machine-integer theorems).
//   c07mag gen SEED COUNT      case lines (three kinds, see below)
//   c07mag run < cases         one result line per case: "OK <digest>" / "THROW <what>"; a sanitizer report kills the
//                              process, the remaining lines are then missing (reported by checks/c07.py)
// case lines:
//   "M1 n m u_1..u_n v_1..v_m s_1..s_n d_1..d_m"   Transportation1d: balanceDemand() then assign()  (the path of
//        DensityLegalizer::improveXTransport / improveYTransport; solve() is NOT called: the library never calls it)
//        classes: positions in [-2^59, 2^59] with totals up to 2^61 (domain t1d_dom); positions ~10^8 with supplies < 2^31
//   "M2 ns nr caps.. dems.. costs[snk][src].."       TransportationProblem (integer costs at the costsFromIntegers bound
//        INT_MAX / (4 ns)): increaseCapacity(), solve(), toAssignment(); capacities/demands all small or all large
//   "M3 binSize k minX maxX minY maxY (k times)"     DensityGrid(binSize, regions), totalCapacity(); regions inside
//        [-2^22, 2^22]^2
#include "vh.hpp"
#include <climits>
#define private public
#define protected public
#include "place_global/transportation_1d.hpp"
#include "place_global/transportation.hpp"
#include "place_global/density_grid.hpp"
using namespace coloquinte;
typedef long long ll;

static void gen(unsigned long long seed, long long count) {
  SplitMix g(seed);
  const ll B = 1LL << 59, T = 1LL << 61;
  for (long long it = 0; it < count; ++it) {
    int kind = (int)g.uni(0, 9);
    if (kind <= 4) {
      bool big = kind <= 2;
      int n = g.uni(1, big ? 9 : 40), m = g.uni(1, big ? 7 : 25);
      std::vector<ll> u(n), v(m), s(n), d(m);
      auto pos = [&]() -> ll {
        if (!big) return g.uni(-100000000LL, 100000000LL);
        int k = (int)g.uni(0, 5);
        if (k == 0) return -B; if (k == 1) return B; if (k == 2) return g.uni(-3, 3);
        return g.uni(-B, B);
      };
      for (auto &x : u) x = pos(); for (auto &x : v) x = pos();
      if (big) {
        ll rs = T, rd = T;
        for (auto &x : s) { ll a = g.coin(25) ? 0 : g.uni(0, rs / 2); if (g.coin(20)) a = rs; x = a; rs -= a; }
        for (auto &x : d) { ll a = g.coin(25) ? 0 : g.uni(0, rd / 2); if (g.coin(20)) a = rd; x = a; rd -= a; }
      } else {
        for (auto &x : s) x = g.coin(10) ? 0 : g.uni(1, 2147483647LL);
        for (auto &x : d) x = g.coin(10) ? 0 : g.uni(1, 40000000000LL);
      }
      printf("M1 %d %d", n, m);
      for (ll x : u) printf(" %lld", x); for (ll x : v) printf(" %lld", x);
      for (ll x : s) printf(" %lld", x); for (ll x : d) printf(" %lld", x);
      printf("\n");
    } else if (kind <= 7) {
      int ns = g.uni(1, 6), nr = g.uni(1, 12);
      ll cb = INT_MAX / (4LL * ns);
      printf("M2 %d %d", ns, nr);
      // all small, or all large (capacities >= 2^20, demands < 2^31 = the cell-area bound of the property): a tiny full
      // sink under a huge demand makes sendSource advance by that sink's capacity per iteration (slow, not wrong)
      bool large = g.coin(50);
      for (int j = 0; j < ns; ++j) printf(" %lld", large ? g.uni(1LL << 20, 1LL << 40) : g.uni(1, 1000));
      for (int i = 0; i < nr; ++i) printf(" %lld", large ? g.uni(1LL << 20, (1LL << 31) - 1) : g.uni(1, 1000));
      for (int j = 0; j < ns; ++j) for (int i = 0; i < nr; ++i) {
        int k = (int)g.uni(0, 3);
        printf(" %lld", k == 0 ? 0 : k == 1 ? cb : g.uni(0, cb));
      }
      printf("\n");
    } else {
      const ll C = 1LL << 22;
      int k = g.uni(1, 6);
      ll binSize = g.coin(50) ? g.uni(1LL << 18, 1LL << 23) : g.uni(1LL << 20, 1LL << 24);
      printf("M3 %lld %d", binSize, k);
      for (int r = 0; r < k; ++r) {
        ll a = g.coin(30) ? -C : g.uni(-C, C), b = g.coin(30) ? C : g.uni(-C, C); if (a > b) std::swap(a, b);
        ll c = g.coin(30) ? -C : g.uni(-C, C), e = g.coin(30) ? C : g.uni(-C, C); if (c > e) std::swap(c, e);
        printf(" %lld %lld %lld %lld", a, b, c, e);
      }
      printf("\n");
    }
  }
}

static std::string run_case(const std::string &line) {
  auto x = vh_ints(line.substr(3)); size_t p = 0;
  auto nx = [&]() -> ll { return p < x.size() ? x[p++] : 0; };
  char buf[96];
  if (line.compare(0, 2, "M1") == 0) {
    int n = nx(), m = nx();
    std::vector<ll> u(n), v(m), s(n), d(m);
    for (auto &y : u) y = nx(); for (auto &y : v) y = nx(); for (auto &y : s) y = nx(); for (auto &y : d) y = nx();
    Transportation1d pb(u, v, s, d);
    pb.balanceDemand();
    std::vector<int> a = pb.assign();
    unsigned long long h = 0; for (int y : a) h = h * 31u + (unsigned)y;
    snprintf(buf, sizeof buf, "OK %zu %llu", a.size(), h); return buf;
  }
  if (line.compare(0, 2, "M2") == 0) {
    int ns = nx(), nr = nx();
    std::vector<ll> caps(ns), dems(nr); std::vector<std::vector<int>> costs(ns, std::vector<int>(nr));
    for (auto &y : caps) y = nx(); for (auto &y : dems) y = nx();
    for (auto &r : costs) for (auto &c : r) c = (int)nx();
    TransportationProblem pb(caps, dems, costs);
    pb.increaseCapacity();
    pb.solve();
    std::vector<int> a = pb.toAssignment();
    unsigned long long h = 0; for (int y : a) h = h * 31u + (unsigned)y;
    snprintf(buf, sizeof buf, "OK %zu %llu", a.size(), h); return buf;
  }
  if (line.compare(0, 2, "M3") == 0) {
    int binSize = (int)nx(); int k = nx();
    std::vector<Rectangle> regs;
    for (int r = 0; r < k; ++r) { int a = nx(), b = nx(), c = nx(), e = nx(); regs.emplace_back(a, b, c, e); }
    DensityGrid grid(binSize, regs);
    snprintf(buf, sizeof buf, "OK %d %d %lld", grid.nbBinsX(), grid.nbBinsY(), grid.totalCapacity()); return buf;
  }
  return "?FORMAT";
}

int main(int argc, char **argv) {
  std::string mode = argc > 1 ? argv[1] : "run";
  if (mode == "gen") { gen(strtoull(argv[2], nullptr, 10), atoll(argv[3])); return 0; }
  vh_silence();
  std::string line;
  while (std::getline(std::cin, line)) {
    if (line.size() < 3) { printf("\n"); continue; }
    std::string r;
    try { r = run_case(line); } catch (std::exception &ex) { r = std::string("THROW ") + ex.what(); }
    printf("%s\n", r.c_str()); fflush(stdout);
  }
  return 0;
}
