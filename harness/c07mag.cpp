// C07 harness: the integer cores of global placement at the boundaries of the magnitude domains of Properties_C07.v,
// run from /repo's working tree under the sanitizer build (observation side of the machine-integer theorems).
//   c07mag gen SEED COUNT      case lines (kinds M1-M3, see below);  c07mag gen SEED COUNT 4: M4 lines only
//   c07mag run < cases         one result line per case: "OK <digest>" / "THROW <what>"; a sanitizer report kills the
//                              process, the remaining lines are then missing (reported by checks/c07.py)
// case lines:
//   "M1 n m u_1..u_n v_1..v_m s_1..s_n d_1..d_m"   Transportation1d: balanceDemand() then assign()  (the path of
//        DensityLegalizer::improveXTransport / improveYTransport; solve() is NOT called: the library never calls it)
//        classes: positions in [-2^59, 2^59] with totals up to 2^61 (domain t1d_dom); positions ~10^8 with supplies < 2^31
//   "M2 ns nr caps.. dems.. costs[snk][src].."       TransportationProblem (integer costs at the costsFromIntegers bound
//        INT_MAX / (4 ns)): increaseCapacity(), solve(), toAssignment(); capacities/demands all small or all large
//   "M3 binSize k minX maxX minY maxY (k times)"     DensityGrid(binSize, regions), totalCapacity(); regions inside
//        [-2^22, 2^22]^2
//   "M4 ns nr bits[snk][src].."                      the FLOAT constructor TransportationProblem(caps, dems, costs) with the
//        binary32 bit patterns of the costs (unit capacities/demands): prints costs() -- compared integer for integer with
//        the Flocq model CostsFloat.costs_from_floats evaluated by vm_compute (checks/c07.py costs_tie).  `c07mag gen SEED
//        COUNT 4` generates them: 1..16 sinks, zeros, equal entries, denormals, entries ~1e30, FLT_MAX, all-tiny matrices
//        (maxVal stays 1e-8f), -0.0f, and (1 in 8) negative entries no larger in magnitude than the maximum (defined
//        conversions, outside cost_dom)
//   "M5 model xbits ybits qbits lo hi"                the producer side of the float costs: prints the binary32 bit patterns of
//        coloquinte::norm(x, y, model) (utils/norm.hpp, the real function), of d * (1.0f + q * d) (a REPLICA of the one-line
//        body of DensityLegalizer::distance, which is a private inline of the .cpp and cannot be linked) and of
//        HierarchicalDensityPlacement::binX(0, 0) of a one-bin grid over [lo, hi] (the real function); compared bit for
//        bit with CostsFloat.norm_f / distance_f / bin_center_f.  `c07mag gen SEED COUNT 5` generates them.
#include "vh.hpp"
#include <cstring>
#include <climits>
#define private public
#define protected public
#include "place_global/transportation_1d.hpp"
#include "place_global/transportation.hpp"
#include "place_global/density_grid.hpp"
#include "utils/norm.hpp"
using namespace coloquinte;
typedef long long ll;

static void gen(unsigned long long seed, long long count) {
  SplitMix g(seed);
  const ll B = 1LL << 59, T = 1LL << 61;
  for (long long it = 0; it < count; ++it) {
    int kind = (int)g.uni(0, 9);
    if (kind <= 4) {
      bool big = kind <= 2;
      int n = g.uni(1, big ? 9 : 40), m = g.uni(1, big ? 7 : 25);
      std::vector<ll> u(n), v(m), s(n), d(m);
      auto pos = [&]() -> ll {
        if (!big) return g.uni(-100000000LL, 100000000LL);
        int k = (int)g.uni(0, 5);
        if (k == 0) return -B; if (k == 1) return B; if (k == 2) return g.uni(-3, 3);
        return g.uni(-B, B);
      };
      for (auto &x : u) x = pos(); for (auto &x : v) x = pos();
      if (big) {
        ll rs = T, rd = T;
        for (auto &x : s) { ll a = g.coin(25) ? 0 : g.uni(0, rs / 2); if (g.coin(20)) a = rs; x = a; rs -= a; }
        for (auto &x : d) { ll a = g.coin(25) ? 0 : g.uni(0, rd / 2); if (g.coin(20)) a = rd; x = a; rd -= a; }
      } else {
        for (auto &x : s) x = g.coin(10) ? 0 : g.uni(1, 2147483647LL);
        for (auto &x : d) x = g.coin(10) ? 0 : g.uni(1, 40000000000LL);
      }
      printf("M1 %d %d", n, m);
      for (ll x : u) printf(" %lld", x); for (ll x : v) printf(" %lld", x);
      for (ll x : s) printf(" %lld", x); for (ll x : d) printf(" %lld", x);
      printf("\n");
    } else if (kind <= 7) {
      int ns = g.uni(1, 6), nr = g.uni(1, 12);
      ll cb = INT_MAX / (4LL * ns);
      printf("M2 %d %d", ns, nr);
      // all small, or all large (capacities >= 2^20, demands < 2^31 = the cell-area bound of the property): a tiny full
      // sink under a huge demand makes sendSource advance by that sink's capacity per iteration (slow, not wrong)
      bool large = g.coin(50);
      for (int j = 0; j < ns; ++j) printf(" %lld", large ? g.uni(1LL << 20, 1LL << 40) : g.uni(1, 1000));
      for (int i = 0; i < nr; ++i) printf(" %lld", large ? g.uni(1LL << 20, (1LL << 31) - 1) : g.uni(1, 1000));
      for (int j = 0; j < ns; ++j) for (int i = 0; i < nr; ++i) {
        int k = (int)g.uni(0, 3);
        printf(" %lld", k == 0 ? 0 : k == 1 ? cb : g.uni(0, cb));
      }
      printf("\n");
    } else {
      const ll C = 1LL << 22;
      int k = g.uni(1, 6);
      ll binSize = g.coin(50) ? g.uni(1LL << 18, 1LL << 23) : g.uni(1LL << 20, 1LL << 24);
      printf("M3 %lld %d", binSize, k);
      for (int r = 0; r < k; ++r) {
        ll a = g.coin(30) ? -C : g.uni(-C, C), b = g.coin(30) ? C : g.uni(-C, C); if (a > b) std::swap(a, b);
        ll c = g.coin(30) ? -C : g.uni(-C, C), e = g.coin(30) ? C : g.uni(-C, C); if (c > e) std::swap(c, e);
        printf(" %lld %lld %lld %lld", a, b, c, e);
      }
      printf("\n");
    }
  }
}

static float b2f(unsigned b) { float f; memcpy(&f, &b, 4); return f; }

static void gen4(unsigned long long seed, long long count) {
  SplitMix g(seed);
  for (long long it = 0; it < count; ++it) {
    int ns = g.coin(30) ? (int)g.uni(1, 3) : (int)g.uni(1, 16), nr = (int)g.uni(1, 6);
    int cls = (int)g.uni(0, 7); if (cls > 5) cls = 3;     // 0 any exponent, 1 around 1e30, 2 all below 1e-8, 3 moderate (1e-3..1e6), 4 denormal-heavy, 5 mixed
    bool neg = g.coin(12);
    unsigned base = 0;
    std::vector<unsigned> v((size_t)ns * nr);
    auto draw = [&]() -> unsigned {
      int c = cls == 5 ? (int)g.uni(0, 4) : cls;
      unsigned frac = (unsigned)g.uni(0, 0x7fffff);
      if (g.coin(15)) frac = g.coin(50) ? 0 : 0x7fffff;
      if (base != 0 && g.coin(40)) return (base & 0x7f800000u) | frac;      // the binade of the repeated entry: non-zero scaled costs
      switch (c) {
        case 0: return ((unsigned)g.uni(0, 254) << 23) | frac;
        case 1: return ((unsigned)g.uni(220, 230) << 23) | frac;           // 2^93..2^103 ~ 1e28..1e31
        case 2: return ((unsigned)g.uni(0, 99) << 23) | frac;              // < 2^-27 < 1e-8
        case 3: return ((unsigned)g.uni(117, 147) << 23) | frac;
        default: return g.coin(60) ? (frac ? frac : 1u) : (((unsigned)g.uni(0, 40) << 23) | frac);
      }
    };
    base = draw();
    for (auto &x : v) {
      int k = (int)g.uni(0, 9);
      x = k == 0 ? 0u : k <= 2 ? base : k == 3 && g.coin(30) ? 0x7f7fffffu : k == 4 && g.coin(20) ? 0x80000000u : draw();
    }
    if (neg) {
      for (auto &x : v) if (g.coin(25)) x |= 0x80000000u;
      // keep the conversions defined: a negative entry no larger in magnitude than maxVal = max(1e-8f, positive entries)
      float mx = 1.0e-8f;
      for (unsigned x : v) if (!(x & 0x80000000u)) mx = std::max(mx, b2f(x));
      for (auto &x : v) if ((x & 0x80000000u) && b2f(x & 0x7fffffffu) > mx) x &= 0x7fffffffu;
    }
    printf("M4 %d %d", ns, nr);
    for (unsigned x : v) printf(" %u", x);
    printf("\n");
  }
}

static unsigned f2b(float f) { unsigned b; memcpy(&b, &f, 4); return b; }

static void gen5(unsigned long long seed, long long count) {
  SplitMix g(seed);
  for (long long it = 0; it < count; ++it) {
    int model = (int)g.uni(0, 5);
    auto coord = [&]() -> unsigned {          // a finite float of magnitude < 2^29 (sign random); small, integral and tiny values too
      int k = (int)g.uni(0, 9);
      unsigned sgn = g.coin(50) ? 0x80000000u : 0u;
      if (k == 0) return sgn;
      if (k == 1) return sgn | f2b((float)g.uni(0, 1 << 22));
      if (k == 2) return sgn | (unsigned)g.uni(1, 0x7fffff);
      return sgn | ((unsigned)g.uni(k <= 5 ? 120 : 60, 155) << 23) | (unsigned)g.uni(0, 0x7fffff);
    };
    unsigned q = g.coin(30) ? 0u : g.coin(20) ? 0x3f800000u : (((unsigned)g.uni(100, 126) << 23) | (unsigned)g.uni(0, 0x7fffff));
    const ll C = 1LL << 22;
    ll lo = g.coin(20) ? -C : g.uni(-C, C - 1), hi = g.coin(20) ? C : g.uni(lo + 1, C);
    printf("M5 %d %u %u %u %lld %lld\n", model, coord(), coord(), q, lo, hi);
  }
}

static std::string run_case(const std::string &line) {
  auto x = vh_ints(line.substr(3)); size_t p = 0;
  auto nx = [&]() -> ll { return p < x.size() ? x[p++] : 0; };
  char buf[96];
  if (line.compare(0, 2, "M1") == 0) {
    int n = nx(), m = nx();
    std::vector<ll> u(n), v(m), s(n), d(m);
    for (auto &y : u) y = nx(); for (auto &y : v) y = nx(); for (auto &y : s) y = nx(); for (auto &y : d) y = nx();
    Transportation1d pb(u, v, s, d);
    pb.balanceDemand();
    std::vector<int> a = pb.assign();
    unsigned long long h = 0; for (int y : a) h = h * 31u + (unsigned)y;
    snprintf(buf, sizeof buf, "OK %zu %llu", a.size(), h); return buf;
  }
  if (line.compare(0, 2, "M2") == 0) {
    int ns = nx(), nr = nx();
    std::vector<ll> caps(ns), dems(nr); std::vector<std::vector<int>> costs(ns, std::vector<int>(nr));
    for (auto &y : caps) y = nx(); for (auto &y : dems) y = nx();
    for (auto &r : costs) for (auto &c : r) c = (int)nx();
    TransportationProblem pb(caps, dems, costs);
    pb.increaseCapacity();
    pb.solve();
    std::vector<int> a = pb.toAssignment();
    unsigned long long h = 0; for (int y : a) h = h * 31u + (unsigned)y;
    snprintf(buf, sizeof buf, "OK %zu %llu", a.size(), h); return buf;
  }
  if (line.compare(0, 2, "M3") == 0) {
    int binSize = (int)nx(); int k = nx();
    std::vector<Rectangle> regs;
    for (int r = 0; r < k; ++r) { int a = nx(), b = nx(), c = nx(), e = nx(); regs.emplace_back(a, b, c, e); }
    DensityGrid grid(binSize, regs);
    snprintf(buf, sizeof buf, "OK %d %d %lld", grid.nbBinsX(), grid.nbBinsY(), grid.totalCapacity()); return buf;
  }
  if (line.compare(0, 2, "M4") == 0) {
    int ns = nx(), nr = nx();
    std::vector<ll> caps(ns, 1), dems(nr, 1); std::vector<std::vector<float>> costs(ns, std::vector<float>(nr));
    for (auto &r : costs) for (auto &c : r) c = b2f((unsigned)nx());
    TransportationProblem pb(caps, dems, costs);
    std::string out = "OK";
    for (auto &r : pb.costs()) for (int c : r) { snprintf(buf, sizeof buf, " %d", c); out += buf; }
    return out;
  }
  if (line.compare(0, 2, "M5") == 0) {
    int model = (int)nx(); float x = b2f((unsigned)nx()), y = b2f((unsigned)nx()), q = b2f((unsigned)nx());
    int lo = (int)nx(), hi = (int)nx();
    float d = norm(x, y, (LegalizationModel)model);
    float val = d * (1.0f + q * d);                       // replica of density_legalizer.cpp:103 with q = (float)quadraticPenaltyFactor
    std::vector<Rectangle> regs; regs.emplace_back(lo, hi, 0, 1);
    DensityGrid grid(1 << 30, regs);
    HierarchicalDensityPlacement hp(grid, std::vector<int>());
    snprintf(buf, sizeof buf, "OK %u %u %u %d", f2b(d), f2b(val), f2b(hp.binX(0, 0)), hp.nbBinsX()); return buf;
  }
  return "?FORMAT";
}

int main(int argc, char **argv) {
  std::string mode = argc > 1 ? argv[1] : "run";
  if (mode == "gen") {
    if (argc > 4 && atoi(argv[4]) == 4) gen4(strtoull(argv[2], nullptr, 10), atoll(argv[3]));   // the M4 stream only
    else if (argc > 4 && atoi(argv[4]) == 5) gen5(strtoull(argv[2], nullptr, 10), atoll(argv[3]));
    else gen(strtoull(argv[2], nullptr, 10), atoll(argv[3]));
    return 0;
  }
  vh_silence();
  std::string line;
  while (std::getline(std::cin, line)) {
    if (line.size() < 3) { printf("\n"); continue; }
    std::string r;
    try { r = run_case(line); } catch (std::exception &ex) { r = std::string("THROW ") + ex.what(); }
    printf("%s\n", r.c_str()); fflush(stdout);
  }
  return 0;
}
