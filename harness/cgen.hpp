// circuit generator + (de)serialisation shared by the placement harnesses
#pragma once
#include "vh.hpp"
#include "coloquinte.hpp"
#include <algorithm>
#include <cmath>
using namespace coloquinte;

struct GenOpts { bool multirow = true, polarity = true, turned = true, fixed = true, splitrows = true, nets = false, mixedSplit = false, tile = false, abut = false; int maxCells = 12; long long scale = 1; int utilLo = 30, utilHi = 110;
  // net weights at the boundary of what addNet accepts (default off = the weights {0.5, 1, 1.5, 2} only, same random stream as before):
  // zeroWeightPct % of the nets get weight 0, tinyWeightPct % a tiny positive weight 2^-k, k = 1..140 (denormal below 2^-126)
  int zeroWeightPct = 0, tinyWeightPct = 0; };
// code of a net weight in the case lines: w2 >= 0 means weight w2 / 2 (0 = weight zero); w2 < 0 means weight 2^w2
inline int genNetW2(SplitMix &g, const GenOpts &o, int plain) {
  if (o.zeroWeightPct > 0 && g.coin(o.zeroWeightPct)) return 0;
  if (o.tinyWeightPct > 0 && g.coin(o.tinyWeightPct)) return -(int)(g.coin(30) ? g.uni(120, 140) : g.uni(1, 60));
  return plain;
}
inline float netWeightOfCode(long long w2) { return w2 >= 0 ? (float)w2 * 0.5f : std::ldexp(1.0f, (int)w2); }

struct TCircuit {   // textual circuit
  std::vector<std::array<long long, 5>> rows;                 // minX maxX minY maxY orient
  std::vector<std::array<long long, 8>> cells;                // x y w h orient pol fixed obs
  std::vector<std::vector<std::array<long long, 3>>> nets;    // cell xo yo
  std::vector<int> netw2;                                     // weight * 2 (>= 0), or k < 0 for the weight 2^k
};

// rows tiled exactly by row-high cells sitting at their positions (a legal placement with segments filled to 100 %,
// some with gaps): aims at the "exactly fits" boundaries of the legalizers (remainingSpace == width, limit == target)
inline TCircuit genTiled(SplitMix &g, const GenOpts &o) {
  TCircuit t; long long sc = o.scale;
  long long rh = g.uni(1, 4) * 2 * sc; int nrows = (int)g.uni(1, 4);
  long long x0 = g.uni(-20, 20) * sc, y0 = g.uni(-20, 20) * sc, W = g.uni(4, 24) * sc;
  for (int i = 0; i < nrows; ++i) {
    int ro = (i % 2 == 0) ? 0 : 5;
    long long a = x0, b = x0 + W;
    if (o.splitrows && g.coin(30) && W >= 8 * sc) {   // a fixed obstruction in the middle of the row
      long long m = g.uni(2, W / sc - 4) * sc, gw = g.uni(1, 2) * sc;
      t.cells.push_back({x0 + m, y0 + i * rh, gw, rh, 0, 0, 1, 1});
    }
    t.rows.push_back({a, b, y0 + i * rh, y0 + (i + 1) * rh, ro});
  }
  // tile every free stretch of every row
  size_t nfixed = t.cells.size();
  for (int i = 0; i < nrows; ++i) {
    long long x = x0; bool full = g.coin(70);
    while (x < x0 + W) {
      long long stop = x0 + W;
      for (size_t f = 0; f < nfixed; ++f) { auto &fc = t.cells[f]; if (fc[1] == y0 + i * rh && fc[0] >= x && fc[0] < stop) stop = fc[0]; }
      if (stop == x) { for (size_t f = 0; f < nfixed; ++f) { auto &fc = t.cells[f]; if (fc[1] == y0 + i * rh && fc[0] == x) x = fc[0] + fc[2]; } continue; }
      long long w = std::min(stop - x, g.uni(1, 5) * sc);
      if (!full && g.coin(25)) { x += w; continue; }      // a gap
      int pol = (o.polarity && g.coin(30)) ? (int)g.uni(1, 2) : 0;
      int ori = (int)t.rows[i][4];
      if (pol == 2) ori = ori == 0 ? 5 : 0;               // OPPOSITE: N <-> FS
      if (pol == 0) { int os[4] = {0, 1, 4, 5}; ori = os[g.uni(0, 3)]; }
      t.cells.push_back({x, y0 + i * rh, w, rh, ori, pol, 0, 1});
      x += w;
    }
  }
  for (size_t i = t.cells.size(); i > 1; --i) std::swap(t.cells[i - 1], t.cells[g.uni(0, i - 1)]);
  return t;
}

// rows given in 2-4 pieces that ABUT exactly (one ends at X, the next starts at X) or are separated by a gap of 1, and 2-5 multi-row
// cells (2-3 rows high) whose targets sit at, one left of and one right of such an X (left edge at the start of a piece) or at
// X - width (+-1) (right edge at the end of a piece: the mirror case), mostly around ONE X so that they have to stack next to each
// other; a few row-high cells around them.  Aims at the bookkeeping of the Tetris pass at the seam between two pieces of one row.
inline TCircuit genAbut(SplitMix &g, const GenOpts &o) {
  TCircuit t; long long sc = o.scale;
  long long rh = g.uni(1, 4) * 2 * sc; int nrows = (int)g.uni(2, 5);
  long long x0 = g.uni(-20, 20) * sc, y0 = g.uni(-20, 20) * sc;
  bool common = g.coin(70), alt = g.coin(60);
  std::vector<std::array<long long, 2>> seams;      // (X where a piece starts right after another one ended, row index)
  std::vector<std::array<long long, 2>> ends;       // (X where a piece ends, row index)
  std::vector<long long> cutw, cutg; long long W = 0;
  auto draw = [&]() { cutw.clear(); cutg.clear(); int np = (int)g.uni(2, 4); for (int k = 0; k < np; ++k) { cutw.push_back(g.uni(2, 9) * sc); cutg.push_back(g.coin(70) ? 0 : (g.coin(50) ? 1 : sc)); } };
  draw();
  for (int i = 0; i < nrows; ++i) {
    if (!common && i > 0) draw();
    int ro = alt ? ((i % 2 == 0) ? 0 : 5) : 0;
    long long x = x0;
    for (size_t k = 0; k < cutw.size(); ++k) {
      t.rows.push_back({x, x + cutw[k], y0 + i * rh, y0 + (i + 1) * rh, ro});
      if (k > 0) seams.push_back({x, i});
      x += cutw[k]; ends.push_back({x, i});
      if (k + 1 < cutw.size()) x += cutg[k];
    }
    W = std::max(W, x - x0);
  }
  for (size_t i = t.rows.size(); i > 1; --i) std::swap(t.rows[i - 1], t.rows[g.uni(0, i - 1)]);
  int nm = (int)g.uni(2, 5);
  auto focus = seams[g.uni(0, seams.size() - 1)];
  auto efocus = ends[g.uni(0, ends.size() - 1)];
  bool mirrorAll = g.coin(30);
  for (int i = 0; i < nm; ++i) {
    std::array<long long, 8> c{};
    int k = (int)std::min<long long>(nrows, g.uni(2, 3)); long long ww = g.uni(1, 4) * sc;
    bool mirror = mirrorAll ? g.coin(85) : g.coin(10);
    auto at = mirror ? (g.coin(80) ? efocus : ends[g.uni(0, ends.size() - 1)]) : (g.coin(80) ? focus : seams[g.uni(0, seams.size() - 1)]);
    long long d = g.uni(-1, 1) * (g.coin(70) ? 1 : sc);
    long long row = std::min<long long>(std::max<long long>(0, at[1] - g.uni(0, k - 1)), nrows - k);
    c[0] = (mirror ? at[0] - ww : at[0]) + d; c[1] = y0 + row * rh + (g.coin(15) ? g.uni(-1, 1) * (g.coin(50) ? 1 : rh) : 0);
    int pol = (o.polarity && g.coin(20)) ? (int)g.uni(1, 4) : 0;
    int ori; if (pol == 0 && o.turned && g.coin(15)) ori = (int)g.uni(0, 7); else { int os[4] = {0, 1, 4, 5}; ori = os[g.uni(0, 3)]; }
    bool turn = ori == 2 || ori == 3 || ori == 6 || ori == 7;
    if (turn) { c[2] = k * rh; c[3] = ww; } else { c[2] = ww; c[3] = k * rh; }
    c[4] = ori; c[5] = pol; c[6] = 0; c[7] = 1;
    t.cells.push_back(c);
  }
  int ns = (int)g.uni(0, 4);
  for (int i = 0; i < ns; ++i) {
    long long ww = g.uni(1, 4) * sc; int pol = (o.polarity && g.coin(30)) ? (int)g.uni(1, 4) : 0; int os[4] = {0, 1, 4, 5};
    t.cells.push_back({x0 + g.uni(-2, W / sc + 2) * sc, y0 + g.uni(-1, nrows) * rh, ww, rh, os[g.uni(0, 3)], pol, 0, 1});
  }
  if (o.fixed && g.coin(20)) t.cells.push_back({x0 + g.uni(0, W / sc) * sc, y0 + g.uni(0, nrows - 1) * rh, g.uni(1, 3) * sc, rh * g.uni(1, 2), 0, 0, 1, g.coin(80)});
  for (size_t i = t.cells.size(); i > 1; --i) std::swap(t.cells[i - 1], t.cells[g.uni(0, i - 1)]);
  return t;
}

inline TCircuit genCircuit(SplitMix &g, const GenOpts &o) {
  if (o.tile) return genTiled(g, o);
  if (o.abut) return genAbut(g, o);
  TCircuit t; long long sc = o.scale;
  long long rh = g.uni(1, 4) * 2 * sc;
  int nrows = (int)g.uni(1, 6);
  long long x0 = g.uni(-20, 20) * sc, y0 = g.uni(-20, 20) * sc, W = g.uni(6, 40) * sc;
  long long y = y0; int pattern = (int)g.uni(0, 2);
  for (int i = 0; i < nrows; ++i) {
    int ro;
    if (pattern == 0) ro = (i % 2 == 0) ? 0 : 5;          // N / FS alternating
    else if (pattern == 1) ro = 0;
    else { int opts[4] = {0, 1, 4, 5}; ro = opts[g.uni(0, 3)]; }
    if (o.splitrows && g.coin(25) && W >= 8 * sc) {
      long long m = g.uni(2, W / sc - 4) * sc, gap = g.uni(0, 2) * sc;
      t.rows.push_back({x0, x0 + m, y, y + rh, ro});
      if (x0 + m + gap < x0 + W) {
        int ro2 = ro;   // one orientation per y (segments of one y are pieces of one physical row) unless mixedSplit
        if (o.mixedSplit && g.coin(60)) { int opts[4] = {0, 1, 4, 5}; ro2 = opts[g.uni(0, 3)]; }
        t.rows.push_back({x0 + m + gap, x0 + W, y, y + rh, ro2});
      }
    } else t.rows.push_back({x0, x0 + W, y, y + rh, ro});
    y += rh; if (g.coin(15)) y += rh * g.uni(1, 2);
  }
  for (size_t i = t.rows.size(); i > 1; --i) std::swap(t.rows[i - 1], t.rows[g.uni(0, i - 1)]);
  long long totalW = 0; for (auto &r : t.rows) totalW += r[1] - r[0];
  int n = (int)g.uni(1, o.maxCells);
  int util = (int)g.uni(o.utilLo, o.utilHi);
  long long budget = totalW * util / 100, used = 0;
  for (int i = 0; i < n; ++i) {
    std::array<long long, 8> c{};
    bool fx = o.fixed && g.coin(15);
    c[6] = fx; c[7] = g.coin(80);
    if (fx) { c[2] = g.uni(0, 8) * sc; c[3] = g.uni(0, 3) * rh / (g.coin(50) ? 1 : 2); c[4] = g.uni(0, 7); c[5] = 0; c[0] = x0 + g.uni(-10, W / sc + 5) * sc; c[1] = y0 + g.uni(-10, (y - y0) / sc + 5) * sc;
      /* two fixed cells with the SAME lower-left corner and different extents (obstruction lists are sometimes deduplicated by corner) */
      if (g.coin(20)) for (auto &pc : t.cells) if (pc[6]) { c[0] = pc[0]; c[1] = pc[1]; break; }
      t.cells.push_back(c); continue; }
    int k = 1; if (o.multirow && g.coin(15)) k = (int)g.uni(2, 3);
    long long ww = g.uni(1, 6) * sc;
    if (used + ww * k > budget) { ww = sc; k = 1; }
    used += ww * k;
    int pol = 0;
    if (o.polarity && g.coin(40)) pol = (int)g.uni(1, 4);
    int ori;
    if (pol == 0 && o.turned) ori = (int)g.uni(0, 7); else { int os[4] = {0, 1, 4, 5}; ori = os[g.uni(0, 3)]; }
    bool turn = ori == 2 || ori == 3 || ori == 6 || ori == 7;
    if (turn) { c[2] = k * rh; c[3] = ww; } else { c[2] = ww; c[3] = k * rh; }
    c[4] = ori; c[5] = pol;
    if (g.coin(10)) { c[0] = g.uni(-1000, 1000) * sc; c[1] = g.uni(-1000, 1000) * sc; }
    else { c[0] = x0 + g.uni(-5, W / sc + 5) * sc + (sc > 1 && g.coin(30) ? g.uni(-3, 3) : 0); c[1] = y0 + g.uni(-5, (y - y0) / sc + 5) * sc + (sc > 1 && g.coin(30) ? g.uni(-3, 3) : 0); }
    t.cells.push_back(c);
  }
  if (o.nets) {
    int nn = (int)g.uni(0, 2 * n);
    for (int k = 0; k < nn; ++k) {
      int d = (int)g.uni(1, 5); std::vector<std::array<long long, 3>> net;
      for (int j = 0; j < d; ++j) { int cc = (int)g.uni(0, n - 1); net.push_back({cc, g.uni(-1, t.cells[cc][2] / sc + 1) * sc, g.uni(-1, t.cells[cc][3] / sc + 1) * sc}); }
      t.nets.push_back(net); t.netw2.push_back(genNetW2(g, o, (int)g.uni(1, 4)));
    }
  }
  return t;
}

inline std::string showRowsCells(const TCircuit &t) {
  std::ostringstream s; s << t.rows.size();
  for (auto &r : t.rows) for (auto v : r) s << " " << v;
  s << " " << t.cells.size();
  for (auto &c : t.cells) for (auto v : c) s << " " << v;
  return s.str();
}
inline std::string showNets(const TCircuit &t) {
  std::ostringstream s; s << t.nets.size();
  for (size_t n = 0; n < t.nets.size(); ++n) { s << " " << t.nets[n].size(); for (auto &p : t.nets[n]) for (auto v : p) s << " " << v; s << " " << t.netw2[n]; }
  return s.str();
}

struct IntReader { std::vector<long long> v; size_t p = 0; long long nx() { return p < v.size() ? v[p++] : 0; } bool done() const { return p >= v.size(); } };

inline TCircuit readRowsCells(IntReader &r) {
  TCircuit t; int nr = (int)r.nx();
  for (int i = 0; i < nr; ++i) { std::array<long long, 5> a; for (auto &v : a) v = r.nx(); t.rows.push_back(a); }
  int nc = (int)r.nx();
  for (int i = 0; i < nc; ++i) { std::array<long long, 8> a; for (auto &v : a) v = r.nx(); t.cells.push_back(a); }
  return t;
}
inline void readNets(IntReader &r, TCircuit &t) {
  int nn = (int)r.nx();
  for (int n = 0; n < nn; ++n) { int d = (int)r.nx(); std::vector<std::array<long long, 3>> net; for (int j = 0; j < d; ++j) { std::array<long long, 3> a; for (auto &v : a) v = r.nx(); net.push_back(a); } t.nets.push_back(net); t.netw2.push_back((int)r.nx()); }
}

static const CellRowPolarity kPol[5] = {CellRowPolarity::ANY, CellRowPolarity::SAME, CellRowPolarity::OPPOSITE, CellRowPolarity::NW, CellRowPolarity::SE};
inline int polInt(CellRowPolarity p) { for (int i = 0; i < 5; ++i) if (kPol[i] == p) return i; return -1; }

inline Circuit buildCircuit(const TCircuit &t) {
  int n = (int)t.cells.size(); Circuit c(n);
  std::vector<int> x(n), y(n), w(n), h(n); std::vector<bool> fx(n), ob(n); std::vector<CellRowPolarity> pol(n); std::vector<CellOrientation> ori(n);
  for (int i = 0; i < n; ++i) { auto &k = t.cells[i]; x[i] = k[0]; y[i] = k[1]; w[i] = k[2]; h[i] = k[3]; ori[i] = (CellOrientation)k[4]; pol[i] = kPol[k[5]]; fx[i] = k[6]; ob[i] = k[7]; }
  c.setCellWidth(w); c.setCellHeight(h); c.setCellIsFixed(fx); c.setCellIsObstruction(ob); c.setCellRowPolarity(pol); c.setCellOrientation(ori); c.setCellX(x); c.setCellY(y);
  std::vector<Row> rows; for (auto &r : t.rows) rows.emplace_back((int)r[0], (int)r[1], (int)r[2], (int)r[3], (CellOrientation)r[4]);
  c.setRows(rows);
  for (size_t k = 0; k < t.nets.size(); ++k) { std::vector<int> cs, xo, yo; for (auto &p : t.nets[k]) { cs.push_back(p[0]); xo.push_back(p[1]); yo.push_back(p[2]); } c.addNet(cs, xo, yo, netWeightOfCode(t.netw2[k])); }
  return c;
}
inline std::string showPlacement(const Circuit &c) {
  std::ostringstream s; for (int i = 0; i < c.nbCells(); ++i) s << " " << c.cellX()[i] << " " << c.cellY()[i] << " " << (int)c.cellOrientation()[i]; return s.str();
}
